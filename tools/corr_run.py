"""Runs one property's harness function under /venv/bin/python (jax, flowjax from /repo).

modes: corr    model-vs-implementation correspondence (writes a Corr result)
       search  property-directed witness search on the real code (after a tie broke)
       replay  re-evaluate the witnesses of a replay file on the real code
       known   re-evaluate the listed known findings on the real code
"""
import argparse, importlib, json, os, random, sys, traceback

HERE = os.path.dirname(os.path.abspath(__file__))
sys.path.insert(0, HERE)
import vlib

def main():
    ap = argparse.ArgumentParser()
    ap.add_argument("pid"); ap.add_argument("mode")
    ap.add_argument("--tier", default="quick"); ap.add_argument("--seed", type=int, default=0)
    ap.add_argument("--out", required=True); ap.add_argument("--extra")
    a = ap.parse_args()
    import jax
    jax.config.update("jax_enable_x64", True)
    mod = importlib.import_module(f"props.{a.pid.lower()}")
    rng = random.Random(a.seed * 1000003 + int(a.pid[1:]))
    if a.mode == "corr":
        c = vlib.Corr(a.pid, a.seed, a.tier)
        mod.corr(c, a.tier, rng)
        vlib.dump(c.result(), a.out)
    elif a.mode == "search":
        hints = json.load(open(a.extra)) if a.extra else {}
        ws = mod.search(hints, a.tier, rng)
        vlib.dump({"witnesses": ws}, a.out)
    elif a.mode == "replay":
        w = json.load(open(a.extra))
        still = []
        for wit in w.get("witnesses", []):
            r = mod.replay(wit)
            print("replay", wit.get("key"), "->", "FAILS" if r else "passes")
            if r:
                still.append(wit.get("key"))
        if not w.get("witnesses"):
            # broken-obligation replay: re-run the search
            ws = mod.search({"broken": w.get("broken_obligations", [])}, "quick", rng)
            still = [x.get("key") for x in ws]
            print("no recorded witness; search found", len(ws))
        vlib.dump({"still_failing": still}, a.out)
    elif a.mode == "known":
        kf = json.load(open(os.path.join(vlib.ROOT, "known_findings.json")))
        still = []
        for f in kf.get("findings", []):
            if f["property"] == a.pid and mod.replay(f["witness"]):
                still.append(f["key"])
        vlib.dump({"still_failing": still}, a.out)
    else:
        raise SystemExit("bad mode")

if __name__ == "__main__":
    try:
        main()
    except Exception:
        traceback.print_exc()
        sys.exit(3)
