"""Write seeded/SUMMARY.md from seeded/*/meta.json (what each seeded change is, what it needs, which check reported it and how)."""
import glob, json, os

ROOT = os.path.dirname(os.path.dirname(os.path.abspath(__file__)))


def how(r):
    if r is None:
        return "not run"
    if r["exit"] == 0:
        return "MISSED (exit 0)"
    if r["exit"] != 1:
        return f"exit {r['exit']}"
    kind = r.get("replay_kind")
    broken = r.get("broken") or []
    ties = sorted({b.split(":")[0] for b in broken})
    first = broken[0] if broken else ""
    w = r.get("witnesses") or []
    wk = ""
    if w:
        wk = w[0].get("check") or w[0].get("kind") or w[0].get("key", "")[:60]
    s = "failing input" if kind == "failing-input" else "no-failing-input-found"
    return f"caught — {s}; ties broken: {'+'.join(ties)} (first: `{first[:90]}`)" + (f"; witness: `{wk}`" if wk else "")


def main():
    rows = []
    for d in sorted(glob.glob(os.path.join(ROOT, "seeded", "C*"))):
        mp = os.path.join(d, "meta.json")
        if not os.path.exists(mp):
            continue
        m = json.load(open(mp))
        pid = m.get("property")
        conf = (m.get("confirmed_by_verifier") or {}).get("confirmed")
        r = (m.get("check_results") or {}).get(pid)
        rows.append((os.path.basename(d), pid, ", ".join(os.path.basename(f) for f in m.get("files", [])), m.get("kind", ""), m.get("needs", ""), conf, how(r), r, m.get("first_run", "")))
    out = ["# Seeded changes", "",
           "Each directory holds `patch.diff` (applies to /repo HEAD with `git -C /repo apply`), `demo.py` (exit 0 without the change,",
           "non-zero with it; run with PYTHONPATH=/repo), and `meta.json` (what it is, what it needs to manifest, the sub-agent's test-suite",
           "run, my own confirmation `confirmed_by_verifier`, and `check_results`: the registered quick check run against the change).",
           "The changes were written by sub-agents that saw only the property text and a scratch worktree; all compile and leave the pinned",
           "suite at 299 passed / 32 environment failures. None is committed to /repo. `tools/seeded.py run <dir>` re-runs one.", "",
           f"{sum(1 for r in rows if r[7] and r[7]['exit'] == 1)} of {len(rows)} are reported by the target property's quick check; "
           f"{sum(1 for r in rows if r[7] and r[7]['exit'] == 1 and r[7].get('replay_kind') == 'failing-input')} with a concrete failing input.", "",
           "| change | file | what it does | needs | demo confirmed | check result (current machinery) | first run (rounds 3-4) |", "|---|---|---|---|---|---|---|"]
    for name, pid, files, kind, needs, conf, h, r, fr in rows:
        out.append(f"| {name} | {files} | {kind[:260].replace('|', '/')} | {needs[:200].replace('|', '/')} | {conf} | {h.replace('|', '/')} | {fr} |")
    open(os.path.join(ROOT, "seeded", "SUMMARY.md"), "w").write("\n".join(out) + "\n")
    print("\n".join(f"{r[0]}: {r[6][:150]}" for r in rows))


if __name__ == "__main__":
    main()
