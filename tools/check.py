"""Check driver.

  ./check Cxx --tier quick|thorough      decide one property on /repo's current working tree
  ./check --setup                        regenerate Gen/, build every Props module and the driver
  ./check --replay <file>                re-evaluate a recorded witness on the real code

Steps per property (DESIGN.md §2.4): regenerate the generated model from /repo; build the
property's theorems (each theorem in Props/Cxx.lean is an obligation); audit axioms and
forbidden constructs; run the correspondence between the model's executable definitions and
the implementation; if any tie is broken, search the real code for a failing input and
report it.  Exit 0 = held, 1 = VIOLATION, 2 = infrastructure problem / timeout.
"""
from __future__ import annotations

import argparse
import fcntl
import importlib
import json
import os
import re
import subprocess
import sys
import time

HERE = os.path.dirname(os.path.abspath(__file__))
ROOT = os.path.dirname(HERE)
sys.path.insert(0, HERE)
sys.path.insert(0, os.path.join(HERE, "py2lean"))
import vlib  # noqa: E402

LEAN = os.path.join(ROOT, "lean")
ALLOWED_AXIOMS = {"propext", "Classical.choice", "Quot.sound"}
FORBIDDEN = re.compile(r"\b(sorry|admit|native_decide|bv_decide|implemented_by|unsafe)\b|^\s*axiom\s|maxHeartbeats\s+0\b", re.M)
ALL_PROPS = [f"C{i:02d}" for i in range(1, 19)]


def log(*a):
    print(*a, flush=True)


def sh(cmd, timeout, cwd=None, env=None):
    t0 = time.time()
    try:
        p = subprocess.run(cmd, cwd=cwd, env=env, capture_output=True, text=True, timeout=timeout)
        return p.returncode, p.stdout + p.stderr, time.time() - t0
    except subprocess.TimeoutExpired as ex:
        out = (ex.stdout or b"").decode(errors="replace") if isinstance(ex.stdout, bytes) else (ex.stdout or "")
        return 124, out + "\nTIMEOUT", time.time() - t0


class Lock:
    def __init__(self, path):
        self.path = path

    def __enter__(self):
        self.f = open(self.path, "w")
        fcntl.flock(self.f, fcntl.LOCK_EX)
        return self

    def __exit__(self, *a):
        fcntl.flock(self.f, fcntl.LOCK_UN)
        self.f.close()


def strip_comments(src: str) -> str:
    # remove /- ... -/ (nested) and -- comments
    out, i, depth = [], 0, 0
    while i < len(src):
        if src.startswith("/-", i):
            depth += 1
            i += 2
        elif depth and src.startswith("-/", i):
            depth -= 1
            i += 2
        elif depth:
            i += 1
        elif src.startswith("--", i):
            while i < len(src) and src[i] != "\n":
                i += 1
        else:
            out.append(src[i])
            i += 1
    return "".join(out)


def blank_comments(src: str) -> str:
    """comments replaced by spaces, newlines kept (so line numbers survive)"""
    out, i, depth = [], 0, 0
    while i < len(src):
        if src.startswith("/-", i):
            depth += 1
            out.append("  ")
            i += 2
        elif depth and src.startswith("-/", i):
            depth -= 1
            out.append("  ")
            i += 2
        elif depth:
            out.append("\n" if src[i] == "\n" else " ")
            i += 1
        elif src.startswith("--", i):
            while i < len(src) and src[i] != "\n":
                out.append(" ")
                i += 1
        else:
            out.append(src[i])
            i += 1
    return "".join(out)


def lean_sources():
    for d, _, fs in os.walk(os.path.join(LEAN, "Flowjaxv")):
        for f in fs:
            if f.endswith(".lean"):
                yield os.path.join(d, f)
    yield os.path.join(LEAN, "Driver.lean")


def forbidden_scan():
    bad = []
    for p in lean_sources():
        src = strip_comments(open(p).read())
        # string literals may legitimately contain words; drop them
        src = re.sub(r'"(?:[^"\\]|\\.)*"', '""', src)
        for m in FORBIDDEN.finditer(src):
            bad.append(f"{os.path.relpath(p, LEAN)}: {m.group(0).strip()}")
    return bad


def theorems_of(path):
    """(qualified name, line) of every theorem in a Props file (single-level namespaces)."""
    out, ns = [], []
    for i, line in enumerate(blank_comments(open(path).read()).split("\n"), 1):
        m = re.match(r"\s*namespace\s+(\S+)", line)
        if m:
            ns.append(m.group(1))
            continue
        m = re.match(r"\s*end\s+(\S+)", line)
        if m and ns and ns[-1] == m.group(1):
            ns.pop()
            continue
        m = re.match(r"\s*(?:@\[[^\]]*\]\s*)?(?:private\s+|protected\s+)?theorem\s+([^\s:({\[]+)", line)
        if m:
            out.append((".".join(ns + [m.group(1)]), i))
    return out


def regenerate():
    import gen
    importlib.reload(gen)
    return gen.main(vlib.REPO, os.path.join(LEAN, "Flowjaxv", "Gen"))


def build(targets, timeout):
    rc, out, dt = sh(["lake", "build"] + targets, timeout, cwd=LEAN)
    return rc, out, dt


def parse_build_errors(out):
    errs = []
    for m in re.finditer(r"error: (\S+?\.lean):(\d+):(\d+): (.*)", out):
        errs.append({"file": m.group(1), "line": int(m.group(2)), "msg": m.group(4)[:300]})
    return errs


def enclosing_decl(path, line):
    try:
        lines = blank_comments(open(path).read()).split("\n")
    except OSError:
        return None
    for i in range(min(line, len(lines)) - 1, -1, -1):
        m = re.match(r"\s*(?:@\[[^\]]*\]\s*)?(?:private\s+|protected\s+|noncomputable\s+)*(theorem|lemma|def|instance|example|structure|inductive|abbrev)\s+([^\s:({\[]*)", lines[i])
        if m:
            return f"{m.group(1)} {m.group(2)}".strip()
    return None


def audit_axioms(pid, thms, timeout):
    """#print axioms for every obligation; returns {thm: [axioms]} ('?' when missing)."""
    auddir = os.path.join(LEAN, ".audit")
    os.makedirs(auddir, exist_ok=True)
    path = os.path.join(auddir, f"{pid}.lean")
    with open(path, "w") as f:
        f.write(f"import Flowjaxv.Props.{pid}\n")
        for t, _ in thms:
            f.write(f"#print axioms {t}\n")
    rc, out, dt = sh(["lake", "env", "lean", path], timeout, cwd=LEAN)
    res = {}
    for t, _ in thms:
        m = re.search(r"'" + re.escape(t) + r"' depends on axioms: \[([^\]]*)\]", out)
        if m:
            res[t] = [a.strip() for a in m.group(1).replace("\n", " ").split(",") if a.strip()]
        elif re.search(r"'" + re.escape(t) + r"' does not depend on any axioms", out):
            res[t] = []
        else:
            res[t] = ["?"]
    return res, out, rc


def load_known():
    p = os.path.join(ROOT, "known_findings.json")
    if os.path.exists(p):
        return json.load(open(p))
    return {"findings": [], "fixed": []}


def write_evidence(pid, ev):
    os.makedirs(os.path.join(ROOT, "evidence"), exist_ok=True)
    vlib.dump(ev, os.path.join(ROOT, "evidence", f"{pid}.json"))


def run_harness(pid, mode, tier, seed, timeout, extra=None):
    """Run tools/corr_run.py under /venv/bin/python (needs jax + flowjax from /repo)."""
    outp = os.path.join(ROOT, ".scratch", f"{pid}-{mode}-{os.getpid()}.json")
    os.makedirs(os.path.dirname(outp), exist_ok=True)
    cmd = ["/venv/bin/python", "-W", "ignore", os.path.join(HERE, "corr_run.py"), pid, mode, "--tier", tier, "--seed", str(seed), "--out", outp]
    if extra:
        cmd += ["--extra", extra]
    env = dict(os.environ)
    env["PYTHONPATH"] = vlib.REPO + os.pathsep + HERE + os.pathsep + env.get("PYTHONPATH", "")
    env["FLOWJAX_VERIF"] = "1"
    env.setdefault("JAX_PLATFORMS", "cpu")
    env["PYTHONDONTWRITEBYTECODE"] = "1"
    rc, out, dt = sh(cmd, timeout, cwd=ROOT, env=env)
    res = None
    if os.path.exists(outp):
        try:
            res = json.load(open(outp))
        except Exception:
            res = None
        os.remove(outp)
    return rc, out, res


def check_property(pid, tier, seed):
    t0 = time.time()
    mod = importlib.import_module(f"props.{pid.lower()}")
    quick = tier == "quick"
    broken = []  # list of dicts describing broken ties
    notes = []

    # ---- 1. regenerate + 2. build (under lock: Gen/ and .lake are shared)
    props_file = os.path.join(LEAN, "Flowjaxv", "Props", f"{pid}.lean")
    with Lock(os.path.join(LEAN, ".check.lock")):
        report = regenerate()
        for gm in getattr(mod, "GEN", []):
            for e in report.get(gm, {}).get("errors", []):
                wanted = getattr(mod, "GEN_TARGETS", None)
                if wanted is None or e["target"] in wanted:
                    broken.append({"kind": "translator", "obligation": f"py2lean:{gm}.{e['target']}", "detail": e["error"]})
        thms = theorems_of(props_file)
        if tier == "thorough":
            # clean rebuild of this property's module and of the generated files
            for sub in ("Props/" + pid, ):
                for ext in ("olean", "ilean", "trace", "c", "hash"):
                    p = os.path.join(LEAN, ".lake", "build", "lib", "lean", "Flowjaxv", sub + "." + ext)
                    if os.path.exists(p):
                        os.remove(p)
        rc, out, dt = build(["driver", f"Flowjaxv.Props.{pid}"], 3000)
        build_out = out
        failed_thms = set()
        if rc == 124:
            log("lake build timed out")
            return 2
        if rc != 0:
            errs = parse_build_errors(out)
            if not errs:
                broken.append({"kind": "build", "obligation": f"lake build Flowjaxv.Props.{pid}", "detail": out[-1500:]})
            for e in errs:
                path = os.path.join(LEAN, e["file"]) if not os.path.isabs(e["file"]) else e["file"]
                decl = enclosing_decl(path, e["line"]) or "?"
                broken.append({"kind": "proof", "obligation": f"{e['file']}: {decl}", "detail": e["msg"], "line": e["line"]})
                if path == props_file:
                    failed_thms.add(decl.split(" ")[-1])
        driver_ok = os.path.exists(vlib.DRIVER) and "driver" not in " ".join(b["obligation"] for b in broken if b["kind"] == "build")
        # ---- axioms audit
        axioms = {}
        if rc == 0 and thms:
            axioms, aout, arc = audit_axioms(pid, thms, 1200)
            for t, ax in axioms.items():
                extra = [a for a in ax if a not in ALLOWED_AXIOMS]
                if extra:
                    broken.append({"kind": "axioms", "obligation": t, "detail": f"depends on {extra}"})
        bad = forbidden_scan()
        for b in bad:
            broken.append({"kind": "forbidden", "obligation": b, "detail": "forbidden construct in Lean sources"})
        leanchecker = None
        if tier == "thorough" and rc == 0:
            lrc, lout, ldt = sh(["lake", "env", "leanchecker", f"Flowjaxv.Props.{pid}"], 2400, cwd=LEAN)
            leanchecker = {"rc": lrc, "wall_s": round(ldt, 1), "tail": lout[-300:]}
            if lrc not in (0, 124):
                broken.append({"kind": "leanchecker", "obligation": f"leanchecker Flowjaxv.Props.{pid}", "detail": lout[-500:]})

    obligations = len(thms)
    if rc == 0:
        discharged = sum(1 for t, _ in thms if all(a in ALLOWED_AXIOMS for a in axioms.get(t, ["?"])))
    else:
        # module failed: only theorems outside the failing declarations could be counted, but a failed
        # module produces no .olean, so nothing is accepted by the kernel
        discharged = 0

    # ---- 3. correspondence
    corr = None
    if os.path.exists(vlib.DRIVER):
        crc, cout, corr = run_harness(pid, "corr", tier, seed, 1500 if quick else 7200)
        if crc == 124:
            log("correspondence timed out")
            log(cout[-2000:])
            return 2
        if corr is None:
            log(cout[-3000:])
            broken.append({"kind": "harness", "obligation": f"corr {pid}", "detail": cout[-1500:]})
        else:
            for m in corr["mismatches"]:
                broken.append({"kind": "correspondence", "obligation": m["correspondence"], "detail": m})
    else:
        broken.append({"kind": "build", "obligation": "driver", "detail": "model driver was not built"})

    # ---- 4. witness search when a tie is broken
    violations = []
    known = load_known()
    known_keys = {f["key"]: f for f in known.get("findings", []) if f["property"] == pid}
    if broken:
        hints = os.path.join(ROOT, ".scratch", f"{pid}-hints-{os.getpid()}.json")
        os.makedirs(os.path.dirname(hints), exist_ok=True)
        vlib.dump({"broken": broken}, hints)
        src, sout, sres = run_harness(pid, "search", tier, seed, 900 if quick else 3600, extra=hints)
        os.remove(hints)
        witnesses = (sres or {}).get("witnesses", [])
        os.makedirs(os.path.join(ROOT, "replays"), exist_ok=True)
        new_w = [w for w in witnesses if w.get("key") not in known_keys]
        rev = sh(["git", "-C", vlib.REPO, "rev-parse", "HEAD"], 30)[1].strip()
        rpath = os.path.join("replays", f"{pid}-{tier}-{seed}.json")
        replay = {
            "property": pid, "seed": seed, "tier": tier, "repo_rev": rev,
            "broken_obligations": broken[:40],
            "kind": "failing-input" if new_w else "broken-obligation",
            "witnesses": new_w[:10],
        }
        # a listed known finding never explains a broken tie: ties are intact on the unchanged tree, so anything
        # broken here is new — with a new failing input if the search found one, without otherwise
        vlib.dump(replay, os.path.join(ROOT, rpath))
        violations.append((rpath, bool(new_w)))

    # ---- known findings: replay each on the real code
    kf_lines = []
    if known_keys:
        krc, kout, kres = run_harness(pid, "known", tier, seed, 900)
        for k in (kres or {}).get("still_failing", []):
            kf_lines.append(f"KNOWN-FINDING: property={pid} {known_keys[k]['desc']}" if k in known_keys else "")

    # ---- 5. evidence
    cov = {
        "obligations": obligations,
        "discharged": discharged,
        "checker_cmd": f"cd lean && lake build driver Flowjaxv.Props.{pid} && lake env lean .audit/{pid}.lean   # (#print axioms of every obligation)",
        "trusted_base": list(getattr(mod, "TRUSTED", [])),
        "obligation_names": [t for t, _ in thms],
        "axioms_used": sorted({a for ax in axioms.values() for a in ax}),
        "evaluations": (corr or {}).get("evaluations", 0),
        "distinct_nontrivial": (corr or {}).get("distinct_nontrivial", 0),
        "rule": getattr(mod, "RULE", ""),
        "samples": (corr or {}).get("samples", []) or [t for t, _ in thms[:5]],
        "traces_validated_against_impl": (corr or {}).get("evaluations", 0),
        "input_distribution": (corr or {}).get("distribution", {}),
        "generated_modules": {k: {"targets": v["targets"], "errors": v["errors"]} for k, v in report.items() if k in getattr(mod, "GEN", [])},
        "broken_ties": broken[:20],
        "exhaustive": False,
        "notes": notes + (corr or {}).get("notes", []),
    }
    if leanchecker:
        cov["leanchecker"] = leanchecker
    ev = {
        "property_id": pid, "tier": tier, "seed": seed, "level": "proof",
        "coverage": cov,
        "assumptions": list(getattr(mod, "ASSUMPTIONS", [])),
        "wall_s": round(time.time() - t0, 1),
        "violations": len(violations),
    }
    write_evidence(pid, ev)
    for line in kf_lines:
        if line:
            log(line)
    log(f"[{pid}] obligations={obligations} discharged={discharged} corr_evals={cov['evaluations']} nontrivial={cov['distinct_nontrivial']} broken_ties={len(broken)} wall={ev['wall_s']}s")
    if violations:
        for b in broken[:8]:
            log(f"  broken: {b['kind']}: {b['obligation']}: {str(b['detail'])[:300]}")
        for rpath, found in violations:
            log(f"VIOLATION property={pid} replay={rpath}" + ("" if found else " no-failing-input-found"))
        return 1
    return 0


def setup():
    t0 = time.time()
    with Lock(os.path.join(LEAN, ".check.lock")):
        rep = regenerate()
        bad = {k: v["errors"] for k, v in rep.items() if v["errors"]}
        if bad:
            log("generator reported errors:", json.dumps(bad)[:2000])
        mods = []
        for pid in ALL_PROPS:
            if os.path.exists(os.path.join(LEAN, "Flowjaxv", "Props", f"{pid}.lean")):
                mods.append(f"Flowjaxv.Props.{pid}")
        rc, out, dt = build(["driver"] + mods, 7200)
        log(out[-3000:])
        log(f"setup: lake build rc={rc} in {dt:.0f}s ({len(mods)} property modules)")
    return 0 if rc == 0 else 2


def replay(path):
    w = json.load(open(path))
    pid = w["property"]
    rc, out, res = run_harness(pid, "replay", "quick", w.get("seed", 0), 1800, extra=os.path.abspath(path))
    log(out[-3000:])
    if res and res.get("still_failing"):
        log(f"VIOLATION property={pid} replay={path}")
        return 1
    return 0 if rc == 0 else 2


def main():
    ap = argparse.ArgumentParser()
    ap.add_argument("prop", nargs="?")
    ap.add_argument("--tier", default=os.environ.get("VERIF_TIER", "quick"), choices=["quick", "thorough"])
    ap.add_argument("--setup", action="store_true")
    ap.add_argument("--replay")
    a = ap.parse_args()
    seed = int(os.environ.get("VERIF_SEED", "0") or 0)
    if a.setup:
        sys.exit(setup())
    if a.replay:
        sys.exit(replay(a.replay))
    if not a.prop:
        ap.error("property id required")
    try:
        sys.exit(check_property(a.prop.upper(), a.tier, seed))
    except subprocess.TimeoutExpired:
        log("timeout")
        sys.exit(2)


if __name__ == "__main__":
    main()
