# Registry of claims; exec'd by mkmanifest.py.  NOT_YET entries are properties whose theorems are not built yet.
_TB = ("Trusted: Lean 4.33 kernel, Mathlib v4.33, axioms propext/Classical.choice/Quot.sound (audited per run, no sorry/native_decide); "
       "the py2lean translator with its typing sheets and the Prelude/Jnp.lean primitive specs (validated by the correspondence on every run); "
       "theorems are over ℝ — IEEE rounding is measured by the correspondence, not proved.")

_TB2 = ("Trusted: Lean 4.33 kernel (core library only for these two properties), axioms propext/Classical.choice/Quot.sound (audited per run, "
        "no sorry/native_decide); the hand-written model lean/Flowjaxv/Model/Train.lean, whose tie to flowjax/train/*.py is the "
        "differential correspondence re-run on every check (scripted loss + counting optimiser / index-tagged rows + recording loss_fn, "
        "keys recomputed from the model's split-tree paths); JAX's jr.split/jr.permutation are treated as deterministic functions of the key.")

claim("C01", "Lean 4 theorems about definitions regenerated from the source (py2lean) + Float correspondence",
      "For every parameter value satisfying the constructor's constraint and every real input, the generated Affine/Loc/Scale/Exp/SoftPlus/Tanh/LeakyTanh "
      "kernels are mutually inverse on their (co)domains and the generated Chain/Invert preserve that for any tree depth; the generated definitions are "
      "re-derived from /repo on every run and run against the real methods on boundary-directed inputs. Whole premade flows: the factory bodies of "
      "flowjax/flows.py (_add_default_permute, _affine_with_min_scale, every make_layer closure except triangular_spline_flow's, keys = jr.split / "
      "filter_vmap(make_layer) / Invert(Scan(layers)) if invert else Scan(layers) of all five factories) are regenerated on every run (Gen/Flows.lean) and "
      "the bijection of coupling_flow, masked_autoregressive_flow, planar_flow (leaky-relu slope 0 < s <= 1) and triangular_spline_flow is proved lawful "
      "(both round trips on all of R^dim, ..._and_log_det point = plain point) for every number of layers, every dim > 0, every layer parameter value and "
      "per-layer permutation, both values of invert, conditional or not; block_neural_autoregressive_flow: the analytic direction is injective into R^dim "
      "with no hypothesis on the inverter, lawful in both orientations with an inverter returning exact preimages; tanh planar flows: forward pass only. "
      "Real factory-built flows (dims 1-5, 1-4 layers) and hand-stacked BNAF / triangular-spline layer stacks are compared with the generated bodies on every run.",
      _TB + " Premade flows: Model/FlowsPre.lean (one-line wrappers the generated text calls: Scan = generated Chain of the unstacked layers, "
      "filter_vmap(make_layer)(keys) = one layer per key, a PRNG key = what it determines; affineFamily/rqsFamily hand models of "
      "get_ravelled_pytree_constructor) and the hand model Flows.triSplineCore of triangular_spline_flow.make_layer are trusted + compared on real flows "
      "(tools/props/flows.py); BNAF / triangular-spline factories cannot be constructed in this environment, their layers are built as make_layer does and "
      "stacked by hand. Not claimed: dim 0 (the real coupling / MAF flows construct, then every method raises ZeroDivisionError); transformer families whose "
      "range is a proper sub-range of R (the theorems ask for lawfulness on all of R: Affine-shaped and spline transformers); an inverse for tanh planar "
      "flows (the library's inverse raises NotImplementedError). Also proved (DESIGN.md §5 C01): Planar with the generated invertibility constraint (leaky-relu slope 0 < s <= 1, every w != 0), TriangularAffine "
      "(forward/back substitution, from the constructor's raw arrays), Coupling, MaskedAutoregressive (the sequential inverse loop modelled literally) and "
      "BlockAutoregressiveNetwork (injective, onto with LeakyTanh, coordinate-wise root finding recovers the preimage) on hand models Model/Triangular.lean and "
      "Model/NetInverse.lean tied by correspondence; Scan/Vmap through C08's theorems and the real Scan-vs-Chain-of-unstacked-layers correspondence.", "DESIGN.md §5 C01")

claim("C07", "Lean 4 theorems about definitions regenerated from the source (py2lean) + Float correspondence",
      "The generated transform/inverse of Affine/Loc/Scale/Exp/SoftPlus/Tanh/LeakyTanh/AdditiveCondition/Flip equal the documented mathematical "
      "functions for all parameters and inputs (LeakyTanh: tanh inside, the tangent line with slope 1-tanh^2(max_val) outside, switch points included); the "
      "constructor's softplus reparameterisation reproduces its argument; Permute (hand model, flat row-major) is inverted by argsort for every permutation of "
      "every size and its constructor check accepts exactly the permutations.",
      _TB + " Model/Ctors.lean and Model/Perm.lean are hand models tied by correspondence. Spline (interpolates its knots, identity outside, strictly increasing), Planar (x + u_hat*act(w.x+b), what u_hat is, the leaky-relu inverse) and TriangularAffine (A x + b with A the requested triangle, constructor reproduces its argument) have theorems too (generated Planar kernels; Model/Triangular.lean hand model).", "DESIGN.md §5 C07")

claim("C03", "Lean 4 theorems about definitions regenerated from the source (py2lean) + Float correspondence",
      "The generated AbstractTransformed methods satisfy the change-of-variables identities for every base/bijection record: log_prob = base log-density at the "
      "inverse image + inverse log-det; sample = bijection of the base sample; the log-prob returned with a sample equals log_prob there whenever the bijection is "
      "lawful with antisymmetric log-dets (any nesting depth); merge_transforms and merge_chains preserve all methods for any nesting depth. Nested real "
      "Transformed objects, their merged forms and the premade flows' orientation are compared with the model on every run. Premade flows: for the "
      "Transformed(base_dist, Invert(Scan(layers)) if invert else Scan(layers)) that each factory of flowjax/flows.py returns (factory bodies regenerated on every "
      "run, Gen/Flows.lean) the three identities and consistency of sample_and_log_prob are proved for coupling, masked-autoregressive, planar (leaky-relu slope "
      "0 < s <= 1), triangular-spline and (under an exact inverter) block-neural-autoregressive flows, for every number of layers, dim > 0, layer parameter values, "
      "permutation, invert flag, base distribution and condition; the whole flow's inverse log-det is minus the forward log-det at the preimage; invert=True makes "
      "log_prob one forward pass through the layers. log_prob / sample / sample_and_log_prob of real factory-built coupling / MAF / planar flows are compared with "
      "the generated bodies on every run.",
      _TB + " Base distributions are abstract records; PRNG is JAX's. BNAF/triangular-spline factories cannot be constructed in this environment (their layer stacks "
      "are built by hand as make_layer does; quick tier: compared under C01, thorough tier also here); triangular_spline_flow.make_layer is the hand model "
      "Flows.triSplineCore; Model/FlowsPre.lean wrappers trusted + compared. Not claimed: dim 0 (real coupling / MAF flows raise ZeroDivisionError in every method); "
      "transformers whose range is a proper sub-range of R; tanh planar flows (forward-only: sample of the default orientation raises NotImplementedError); the "
      "bisection inverter's tolerance inside BNAF flows (C10).", "DESIGN.md §5 C03")

claim("C12", "Lean 4 theorems (core Lean, no Mathlib) about a hand model of pytrees with wrapper nodes whose per-class unwrap bodies are also instantiated with the bodies regenerated from flowjax/wrappers.py + differential correspondence on real pytrees and real training runs",
      "For every pytree (any size, nesting depth, container width, any per-class unwrap bodies returning wrapper-free values): unwrap leaves no wrapper, is idempotent, applies "
      "every wrapper node exactly once with inner wrappers before outer ones, and commutes with slicing a tree built under any number of vmap levels (batched unwrap = stack of "
      "per-slice unwraps); a method of the form g∘unwrap gives the same result on t and unwrap t; partition(is_inexact_array, is_leaf=NonTrainable) puts every leaf under a "
      "NonTrainable and every non-inexact leaf in the static half, combine∘partition = id, and for EVERY sequence of update trees (any optimiser, loss, number of steps of either loop) "
      "the trained tree has the same static half (frozen and non-float leaves bit-identical); get_ravelled_pytree_constructor counts only trainable entries, fixes the frozen ones "
      "for every v, and constructor(0)=t. The model is run against the real unwrap / eqx.partition / apply_updates / constructor on random real wrapper trees (order of application "
      "observed through instrumented subclasses), vmapped constructions and real flows; real fit_to_data / fit_to_variational_target runs (adam, sgd+momentum, adamw with weight decay) "
      "are compared bitwise on frozen leaves; all bijection/distribution methods are compared on t vs unwrap(t). The unwrap bodies of NonTrainable, BijectionReparam (and its constructor), "
      "Where, WeightNormalization (matrix and rank-3 batch) and Lambda are regenerated from flowjax/wrappers.py on every run (Gen/Wrappers.lean), assembled into one WrapFn (Model/WrapGen.lean) and "
      "proved to satisfy the two hypotheses the theorems put on the abstract bodies (WrapFree, SkUniform), so the unwrap theorems hold of the real bodies outright; NonTrainable.unwrap is proved to be "
      "the identity on values; the generated bodies are run against the real unwrap on matrices / rank-3 batches of many shapes and on whole nests (BNAF weight nest, masked MAF layers).",
      "Trusted: Lean 4.33 kernel, axioms propext/Classical.choice/Quot.sound (audited per run, no sorry/native_decide); the hand model Model/Tree.lean of jax flattening order, "
      "eqx.partition/combine/apply_updates, ravel_pytree and filter_vmap, and the encoder of real pytrees (both validated by the correspondence on every run). "
      "Partial: exactly-zero gradients rest on stop_gradient's semantics (measured: jax.grad is exactly 0; absence of frozen leaves from the differentiated params half is proved); "
      "Where/WeightNormalization built under vmap are covered only when their arguments broadcast batch-polymorphically (hypothesis in WB; the real Where with mixed-rank arguments under vmap "
      "unwraps to a wrong value or raises); the theorems quantify over abstract per-class unwrap bodies and are instantiated with the generated ones (translator tools/py2lean/py2nd.py + typing sheet "
      "targets_wrappers.py trusted + compared: scale has the keepdims shape of the norms, bijection._vectorize.transform is the per-element transform, eqx.error_if returns its value when it does not raise, "
      "stop_gradient is the identity on values; a Lambda's function stays a parameter).", "DESIGN.md §5 C12")

claim("C08", "Lean 4 theorems about generated Chain/Invert, the generated Concatenate/Stack/Partial/Reshape/EmbedCondition (proved equal to a hand n-d array model) + differential correspondence on random expression trees",
      "For arrays of any rank and size: jnp.array_split/jnp.concatenate/jnp.stack along any axis are modelled on the (outer, axis, inner) view of row-major data and proved mutually "
      "inverse; Concatenate/Stack apply child j to exactly slice j and write exactly slice j, are lawful when the children are, and return the sum of the children's log-dets; Partial "
      "changes only the indexed positions (gather/scatter laws); Reshape/EmbedCondition only re-present the inputs; the generated Chain is composition, the generated Invert swaps "
      "directions; slicing, merge_chains and merge_transforms never change the function. Scan, Vmap and _filter_scan (jax_transforms.py) are regenerated on every run (py2meth.py, sheet targets_jaxtr.py -> Gen/JaxTransforms.lean: the nested step / _scan_fn / _transform closures, "
      "the carries, reverse=True on the inverse methods, jnp.sum of the vmapped log-dets) over the hand-written meanings of lax.scan / eqx.partition / eqx.combine / eqx.filter_vmap (Model/JaxTrWorld.lean) and proved: the four generated Scan methods ARE the generated Chain methods of the "
      "unstacked layers for every number of heterogeneous layers (gen_scan_eq_chain; the carry of _filter_scan is the left fold over the layers, reversed iff reverse), the generated Vmap methods are the stack of the child method on (bijection i, slice i, condition i) with summed log-dets and equal the hand model "
      "for shared or mapped parameters and condition (gen_vmap_eq_model); Flows.scanOf, the Scan of the generated premade-flow factories, IS the generated Scan. The four methods and the constructors of "
      "Concatenate/Stack/Partial/Reshape/EmbedCondition are regenerated from concatenate.py / utils.py on every run (Gen/ArrCombinators.lean) and proved equal to the hand model for every rank, "
      "axis (negative included), number of children and child behaviour, so the theorems hold of what the code says now; the generated constructors are proved to declare the C13 shape / cond_shape. "
      "Generated definitions and hand model are both run against the real "
      "combinators on random trees: ranks 0-3, every valid axis incl. negative, every index kind of Partial, conditional and unconditional children mixed, Scan, Vmap; the primitive specs against jnp directly. "
      "Premade flows: the Scan inside every factory of flowjax/flows.py (factory bodies regenerated on every run, Gen/Flows.lean) is proved to be the generated Chain of its unstacked, "
      "heterogeneous layers [make_layer(key 0), ..., make_layer(key (n-1))] for every n (wrapped in the generated Invert iff invert), with the four methods of the flat chain "
      "[b0, p0, b1, p1, ...], and _add_default_permute adds nothing / Flip / Permute for dim 1 / 2 / otherwise; the real Scan / Invert(Scan) of real factory-built coupling / MAF / planar "
      "flows is compared with that chain on every run (both log-det methods).",
      _TB + " Model/Arr.lean is a hand model tied by proof to the generated definitions and by correspondence to the code; Model/ArrJnp.lean (specs of jnp.array_split/split/concatenate/stack/squeeze/reshape/indexing) and the typing sheet targets_arrcomb.py are trusted + compared; Partial.idxs enters resolved to flat positions; the meanings of lax.scan / eqx.partition / combine / filter_vmap (Model/JaxTrWorld.lean) are trusted + compared on real Scan / Vmap objects (incl. array conditions mapped along axis None / 0 / 1 / -1); the Vmap theorems assume 0 < axis_size; declared-shape algebra for negative axes is proved in C13's ArgCheck model. Premade flows: Model/FlowsPre.lean (Scan = Chain of the unstacked layers, filter_vmap(make_layer) = one layer per key) is trusted + compared "
      "on real flows through fj.unstack_scan; hand-stacked BNAF Scans are compared in the thorough tier (quick tier: under C01); dim 0 flows (ZeroDivisionError in the real code) are outside the statements.", "DESIGN.md §5 C08")

claim("C09", "Lean 4 theorems about the mask helpers / rank assignment / per-layer masks regenerated from the source (proved equal to a hand-written executable model of the masks and masked networks) + exhaustive structural and Float/Jacobian correspondence with the real objects",
      "For every size (dim, cond_dim, width, depth, parameters per dimension, block shape, number of blocks, offset) and ALL raw weight/bias/scale values and activations: "
      "the mask helpers return exactly the documented patterns (block_tril_mask's loop is modelled literally and proved equal to its closed form); masks are applied at unwrap so "
      "the computed weight is 0 wherever the mask is false; output o of the masked MLP is unchanged by inputs of rank >= rank o; with the constructor's rank formulas (both branches, "
      "dim=1 with jnp's x % 0 = 0, depth 0) transformer parameters of coordinate i depend only on x_j, j<i and output i on x_0..x_i; width >= dim implies every permitted pair and every "
      "condition input is joined by a path of true mask entries; Coupling.transform returns its first block and transforms coordinate i as a function of x_i, the first block and the "
      "condition; the BNAF transform has dy_i/dx_j = 0 for j>i and dy_i/dx_i > 0 (differentiable activation with positive derivative) and is strictly increasing in its own coordinate "
      "for any strictly increasing activation. The model is compared with the real flowjax.masks functions and the Where.cond arrays of really constructed MaskedAutoregressive objects "
      "over the whole size grid, its forward passes with the real transform at Float on overwritten raw leaves, and its dependency pattern with jax.jacobian sparsity. "
      "rank_based_mask, block_diag_mask, block_tril_mask (its for-loop, slices and max(0, i-k) included), the rank assignment of MaskedAutoregressive.__init__ (both branches) and the loop of "
      "masked_autoregressive_mlp (eq = i != len(layers) - 1, Where(mask, weight, 0) put in place by eqx.tree_at) are regenerated from masks.py / masked_autoregressive.py on every run "
      "(Gen/MasksGen.lean) and proved equal to the hand model for every size, so the mask and MAF theorems hold of what the code says now; the generated definitions are run against the real "
      "functions / Where.cond arrays on the same grid.",
      _TB.replace("the py2lean translator with its typing sheets and the Prelude/Jnp.lean primitive specs", "the hand-written model lean/Flowjaxv/Model/Masks.lean (masked MLP / Coupling / BNAF forward passes; the masks and ranks are tied to it by proof from the regenerated definitions), the translator tools/py2lean/py2mask.py with its typing sheet targets_masks.py, the primitive specs Prelude/JnpMask.lean (arange, integer % with x % 0 = 0, hstack, repeat, broadcasting comparison, Python slice bounds, .at[a:b, c:d].set, block_diag, enumerate) and the Prelude/Jnp.lean dot/sum specs")
      + " eqx.nn.MLP/Linear call semantics are modelled (weight @ x + bias, scalar activation per unit); shapes allocated by the constructors enter as WellShaped hypotheses (and len(mlp.layers) = depth + 1 for the generated masked_autoregressive_mlp), checked on every real object.",
      "DESIGN.md §5 C09")

claim("C11", "Lean 4 theorems about definitions regenerated from the source (py2lean) and a hand-written constructor glue + Float correspondence",
      "For every real value of the raw trainable arrays (no box needed in exact arithmetic) and every vector length: SoftPlus-reparameterised scales, "
      "triangular diagonals, degrees of freedom and the min-scale transformer stay strictly positive and reproduce their constructor arguments; the generated "
      "spline knot vector is strictly increasing from interval[0] to interval[1] with knots+2 entries and derivatives above min_derivative (initialised to exactly 1); "
      "the generated planar get_act_scale gives w.u_hat = -1 + log(1+softplus(w.u)) > -1 hence positive Jacobian factors for tanh and every leaky slope in (0,1]; "
      "mixture weights are positive, sum to one and reproduce w/sum(w); a weight-normalised non-zero row has norm softplus(raw); each modelled guard rejects exactly the "
      "invalid set (scale/df/weights <= 0, maxval <= minval, sort(p) != arange <=> not a permutation). The wrappers' unwrap bodies are regenerated too (Gen/Wrappers.lean): "
      "WeightNormalization.unwrap on a whole matrix of any shape equals the per-row kernel row by row (so the norm is over the last axis) and every row of the result has norm |scale_row|, "
      "slice by slice for a rank-3 batch; Where.unwrap selects (and with a matrix condition and if_false = 0 is the C09 masking function); BijectionReparam's generated constructor followed by "
      "the generated unwrap reproduces the argument for every lawful bijection and stores a value in the bijection's domain.",
      _TB + " Partial: float rounding inside the +-50 box is measured, not proved — two float absorption regions (planar w.u < -36.7/-16.6; spline softmax_adjust=0 with raw spread >= 36/16) "
      "are KNOWN FINDINGS listed in known_findings.json; float32 underflow of tiny mixture weights is documented; eqx.error_if raising is observed at run time; "
      "the hypotheses w != 0 (planar, weight norm) and knots >= 1 are needed (real code: NaN / ZeroDivisionError there).", "DESIGN.md §5 C11")

claim("C13", "Lean 4 theorems (core Lean, no Mathlib) about a class table, the wrapper's inner checks (tools/py2lean/structure.py) and the "
      "constructors / argument checks (tools/py2lean/py2ctor.py: exception-valued statement-level translation) regenerated from the source AST, "
      "about hand-written executable models of the wrapper / vectoriser / constructor checks, and proofs that the regenerated constructors ARE "
      "the hand models, + exhaustive small-lattice correspondence with the real classes, constructors and live class introspection",
      "For ALL shapes of all ranks the checking wrapper (regenerated `_check_x` / `_check_condition`) lets a call through iff x has exactly the declared "
      "shape and (the bijection is unconditional — the body then receives condition=None — or the condition has exactly cond_shape), otherwise it raises "
      "ValueError/TypeError; for every class of the regenerated class table and each of the four methods the attribute Python resolves through the MRO is "
      "one the __init_subclass__ hook wrapped (decide over the table: no alias, decorator, mixin, nested class, foreign setattr); log_prob/sample accept iff "
      "trailing dimensions match exactly; the REGENERATED check_shapes_match / merge_cond_shapes / Chain / Concatenate (+ _argcheck_shapes) / Stack / Partial / "
      "Reshape / EmbedCondition / Vmap / AbstractTransformed constructors and checks raise the same exception or declare the same shape / cond_shape as the "
      "specification-level models for every list of children, every axis (negative included) and every modelled index, hence accept iff the documented "
      "compatibility holds; Concatenate/Stack declare exactly the jnp.concatenate/jnp.stack shape for every valid (also negative) axis; Partial for slices and "
      "in-range integer indices; TriangularAffine/Coupling/MAF/BNAF tests as hand models. Correspondence: every concrete bijection class x four methods x "
      "wrong-shape lattice x condition variants (exception class and result shapes), constructors on shape grids through hand model, regenerated definition "
      "and real constructor, live __mro__/__dict__/__wrapped__ of every subclass, distributions.",
      _TB + " Known finding kept faithful in the model: Partial accepts an out-of-range integer index (theorems partial_oob_int_accepted / "
      "gen_partial_oob_int_accepted; the …_rejects_iff_partial theorems exclude it). Trusted + compared: the typing sheet targets_ctors.py (children are "
      "records of declared shape / cond_shape, unwrap keeps them, Equinox runs __check_init__ after __init__) and the primitives of Model/CtorPrims.lean "
      "(range(n)[i], slices, math.prod, JAX static indexing for int / slice indices, Vmap's pytree traversal resolved by the harness). Array/tuple index "
      "kinds of Partial and the result shapes of successful calls are covered by the correspondence/oracle on the real code, not by theorems. Python's "
      "__init_subclass__/MRO/functools.wraps semantics are modelled by the resolver and validated against live introspection each run.", "DESIGN.md §5 C13")

claim("C05", "Lean 4 theorems about definitions regenerated from the source (py2lean) + Float correspondence + exact-rational / scipy oracle",
      "For every valid parameter (scale>0, rate>0, df>0, minval<maxval) and every point of the support, the one-element log-prob of Normal, LogNormal, Uniform "
      "(closed support), Gumbel, Cauchy, Laplace, Exponential, Logistic and StudentT - the generated standard log-density under the generated "
      "AbstractTransformed._log_prob with the bijection the constructor builds (softplus-reparameterised scale/df) - equals the textbook log-density written "
      "out in the theorem (Normal/Cauchy/Exponential also = log of Mathlib's gaussianPDFReal/cauchyPDFReal/exponentialPDFReal); for any number of independent "
      "dimensions the lifted log-prob is the sum of the one-element values; the accessors loc/scale/df/rate/minval/maxval return the constructor's values. "
      "MultivariateNormal (generated Transformed over the hand model of TriangularAffine's constructor, parameter = the Cholesky factor L): for every dimension, "
      "loc, lower-triangular L with positive diagonal and x, log_prob = -(n/2)log(2pi) - sum log L_ii - 1/2 |L^-1(x-loc)|^2 with the modelled forward substitution, "
      "= -(n/2)log(2pi) - 1/2 log det S - 1/2 (x-mu)' S^-1 (x-mu) for S = L L' (Mathlib matrices); .loc and .covariance (= L L') reproduce the constructor's values. "
      "-inf outside the support, never NaN: the same polymorphic definitions instantiated at EF (reals + +-inf + NaN, IEEE special-value rules) give exactly -inf "
      "for Uniform outside [a,b] and Exponential at x<0 (and at +-inf), NaN privately / -inf publicly for LogNormal at x<=0, the real-number value at every real "
      "point of every full-support family, and the public log_prob (where(isnan, -inf, .)) is never NaN for any private value. "
      "The max-shifted logsumexp/log_softmax the model runs equal log-sum-exp / v - logsumexp v, the VmapMixture log-prob is the log of the weight-normalised sum "
      "of component densities for any number of components and positive weights, is invariant to rescaling the weights, and the normalised weights sum to one; "
      "VmapMixture._sample selects component[categorical draw] and returns its sample, sample_and_log_prob is consistent. "
      "Samples follow the density: every _Standard*._sample is one jax.random primitive (trusted law); the generic location-scale push-forward (base density p => "
      "density p((x-loc)/scale)/scale) is proved and instantiated for Normal, Gumbel, Cauchy (also Mathlib's cauchyMeasure), Laplace, Logistic, StudentT, Uniform "
      "(indicator density), Exponential (Mathlib's expMeasure 1 -> expMeasure rate), LogNormal (exp push-forward), MultivariateNormal (linear push-forward on R^n) and "
      "mixtures (categorical law x component laws => mixture density), each with density exp(log_prob) on the support and 0 outside. "
      "Every run compares the model at Float with the real private/public log_prob (special-value classes exactly: -inf outside the support, NaN -> -inf), "
      "accessors, samplers, constructor guards, VmapMixture (log_prob and sampling on real keys) and MultivariateNormal (model fed with jnp.linalg.cholesky(cov); "
      "dims 1-4/6, random / diagonal / ill-conditioned / correlated / tiny / huge covariances, far tails) over all broadcastable parameter shapes and edge/outside/non-finite points.",
      _TB + " Prelude/Stats.lean specs of jax.scipy.stats logpdfs and the Lanczos log-Gamma at Float are trusted specs validated by the correspondence; "
      "Model/Families.lean wiring/lifting/mixture/MultivariateNormal wiring are hand models tied by correspondence. Over the reals statements are on the support "
      "(no -inf/NaN in R); the EF statements model special values only (exact finite arithmetic: no rounding, overflow, underflow). jnp.linalg.cholesky and the laws of "
      "the jax.random primitives (incl. categorical and the independence of jr.split's halves) are trusted primitives. "
      "At Uniform's upper edge the Float comparison uses an input tolerance of max(16 ulps, 4e-11 width) (softplus round trip of the scale is inexact in floating point).",
      "DESIGN.md §5 C05")

claim("C10", "Lean 4 theorems about loop bodies regenerated from the source (py2lean) under hand-modelled while_loop/scan + exact Rat/Float correspondence",
      "For every strictly increasing f with a root r and every lower < upper, tol > 0, max_iter >= 0: the generated interval adaptation terminates within "
      "clog2(ceil(d/(upper-lower))+1) iterations (d = distance of r to the interval) returning a bracket of r (collapsed onto r on an exact hit) no wider than "
      "(upper-lower)+d; the generated bisection loop keeps r bracketed, halves the width, makes <= max_iter iterations and returns a point within "
      "max(tol, (hi0-lo0)/2^(max_iter+1)) of r; coordinate by coordinate the scan recovers the preimage of any triangular map increasing in its own coordinate "
      "(exactly for an exact scalar solver, within eps*(1+L/m)^i for an eps-accurate one). The real float64 code is compared bit-for-bit (root, iteration counts, "
      "adapted bracket, sequence of evaluation points) with the model run at exact Rat and at Float on every check.",
      _TB + " lax.while_loop / lax.scan and the glue of _bisection_search are hand-modelled (Model/Bisection.lean) and validated by that correspondence; float "
      "resolution at the root's magnitude is outside the theorems.", "DESIGN.md §5 C10")

claim("C18", "Lean 4 theorems about a reverse-mode (vjp) model over ASTs regenerated from the source, on reals extended by ±inf/NaN; the same interpreter runs at Float against jax.grad",
      "PARTIAL. For every generated leaf kernel in both directions (Affine, Exp, SoftPlus, Tanh, LeakyTanh, RationalQuadraticSpline; value and log-det) and every real input on the "
      "kernel's domain — spline interval ends, knots and outside points, LeakyTanh switch points, |y| = 1 — the value is finite and every adjoint w.r.t. the input and every parameter is "
      "finite for every finite cotangent (Safe => finite, proved once for the interpreter; Safe proved per kernel for all valid parameters); finiteness composes through layers and "
      "through log_prob = base + log-det; the public log_prob is never NaN. The AST is regenerated from /repo each run and the interpreter's Float instance is compared with jax.grad "
      "(value and every adjoint) on the boundary-directed set.",
      _TB + " Model/Ad.lean's cotangent rules are a hand model of JAX autodiff (validated, not proved); EF has exact finite arithmetic: overflow (exp of large arguments), rounding "
      "and signed zeros are outside the model and covered by the correspondence/oracle only; the MAF inverse scan, BlockAutoregressiveNetwork and whole factories are covered by the oracle only (network conditioners, spline-transformer couplings and MultivariateNormal have theorems, see SESSION 3 below).", "DESIGN.md §5 C18")

claim("C15", "Lean 4 theorems (all n, batch sizes, split sizes, permutations, epochs) about an index-flow/key-schedule model, proved equal to the loops REGENERATED from the source on every run (py2loop) + exact call-by-call correspondence of both with the real fit_to_data",
      "For every dataset size n, every 0 < n_val < n, every batch_size >= 1, every number of epochs and EVERY family of permutations standing for "
      "jr.permutation: train and validation parts partition the dataset; each array is the image of one index run (x and condition rows stay paired); "
      "per epoch no row is used twice, exactly the last n_train mod b' rows of that epoch's order are skipped (< one batch); validation rows never "
      "reach a gradient step; batch counts and shapes; all consumed keys are distinct nodes of the split tree and none is split again; the run is a "
      "function of the permutations at its shuffle keys. The real fit_to_data is compared call by call (rows of every array, key, train/val, order) "
      "with the model on the permutations JAX draws for the model's key paths. "
      "Second tie (regeneration): tools/py2lean/py2loop.py translates _add_batch, get_batches, train_val_split, step and fit_to_data statement by statement "
      "(it refuses what it does not understand) into Gen/TrainGen.lean — Python ints as Int with floor division and negative slices, the three loops as folds of "
      "generated body functions over generated state structures, the library calls as fields of an abstract World (permutation per key, loss function, optimiser; "
      "abstract parameter type). Proved for every world, array, batch size, key: generated _add_batch / get_batches = the model's (raises iff min(b,len)=0); "
      "generated train_val_split on arrays of n rows with round(val_prop*n) = r <= n = the model's split of every array with the same permutation (sizes n-r and r); "
      "one generated epoch in closed form over the model's pieces; the generated run seen from x and from condition is the model's run on that array with the same "
      "permutations and keys (so every theorem above, and alignment, hold of the generated loops); early stopping does not change the data flow of the epochs run. "
      "The generated definitions are also executed against the real ones: _add_batch/get_batches (n<=40 x 11 batch sizes incl. > n, one and two arrays), train_val_split "
      "(n<=40 x 18 val_prop incl. ties and out-of-range, rows and sizes under JAX's permutation), and the generated fit_to_data in a recording world (each loss value "
      "is an injective code of the call producing it) call by call against every real run.",
      _TB2 + " py2loop.py, its typing sheet targets_train.py and the primitive specs of Model/TrainWorld.lean are trusted and validated by running the generated "
      "definitions against the real ones on every check. Key distinctness is proved for tree paths and for any split that is injective in (parent, index) and never returns the root; that "
      "threefry is such a function is assumed (observed per run). n_val = round(val_prop*n) is an input of the theorems; its float rounding is checked by the correspondence.",
      "DESIGN.md §5 C15")

claim("C16", "Lean 4 theorems (all loss sequences of pairwise-distinct values of any length, all patience/max values) about loop models as folds, proved equal to the loops REGENERATED from the source on every run (py2loop) + exhaustive correspondence of both with the real loops under a scripted loss and a counting optimiser",
      "fit_to_data: at most max_epochs epochs; it stops after the first epoch e with e - argmin(val[0..e]) > max_patience and at no earlier epoch, else runs "
      "max_epochs; one train and one validation loss per epoch run; return_best returns the parameters after the epoch of minimum validation loss, otherwise "
      "the last; max_epochs = 0 returns the initial parameters. fit_to_variational_target: exactly `steps` steps, one loss per step, return_best returns the "
      "pre-update parameters of the argmin step (the parameters the minimum loss was evaluated at). The pre-0ab1adc behaviour (post-update parameters) is "
      "proved to violate this on [1,4,16,64]. Real loops are compared with the model on every permutation of 1..L (L<=5 quick, <=6 thorough, a random half of L=7 at "
      "sampled settings) x patience x max x return_best, jit enabled and disabled, single- and multi-batch epochs. "
      "Second tie (regeneration): count_fruitless, step, fit_to_data (epoch body with the best_params bookkeeping `losses['val'][-1] == min(...)`, the stopping test "
      "`elif count_fruitless(...) > max_patience: break`, the final selection) and fit_to_variational_target (`best_params = params` before `params = new_params`, "
      "selection) are regenerated by tools/py2lean/py2loop.py into Gen/TrainGen.lean and proved, for every world (loss function, optimiser, abstract parameters), data, "
      "key and configuration: generated count_fruitless = the model's on non-empty lists (raises iff empty); one generated epoch performs exactly the model's step "
      "(append one train and one validation loss; best_params := post-epoch parameters iff the new loss is the minimum; else break iff count_fruitless > max_patience; a "
      "broken loop is frozen); the generated fit_to_data returns the model's loss lists and the parameters after `returned` epochs on the loss scripts the run itself "
      "produces (lock-step simulation); likewise the variational loop step by step; the main claims are restated on the generated functions. A change of `>` to `>=`, of "
      "`best_params = params` to `new_params`, of the selection expression, or of `//` to a ceiling breaks a named proof; a `for … else` is refused by the translator. "
      "Every history is also run through the generated definitions (driver ops gcfruit/gfit/gvi) against the real functions.",
      _TB2 + " py2loop.py, its typing sheet and Model/TrainWorld.lean (meaning of the library calls) are trusted and validated by those runs. Ties and NaN losses are outside the property's quantifier (the model resolves ties as the code does, unproved).", "DESIGN.md §5 C16")

claim("C04", "Lean 4 theorems (Mathlib change of variables) about definitions regenerated from the source (py2lean) and hand models of the network bijections + Float correspondence; quadrature/KS oracle on the real code when a tie breaks",
      "PARTIAL. Proved: the change-of-variables density preserves total mass and is the law of the transformed sample (finite-dimensional — everywhere differentiable or with finitely many measurable pieces —, 1-D, and 1-D with finitely many kinks); "
      "for the generated AbstractTransformed methods, any depth of nested Transformed over layers that are lawful bijections with correct inverse log-dets integrates to one when the base does, "
      "for every condition, and the law of `sample` has density exp(log_prob) whenever the base sampler's law has density exp(base log_prob); these layer hypotheses are discharged for the generated "
      "Affine/Scale/Loc (any non-zero scale), LeakyTanh (any max_val > 0, switch points included) and RationalQuadraticSpline (any constructor-reachable parameters, one-sided derivatives at the interval ends) in one dimension, "
      "and IN d DIMENSIONS, with no Jacobian hypothesis left, for every flow architecture's layer in either orientation (Transformed(base, b) and Transformed(base, Invert(b)), the factories' default): "
      "affine Coupling (every differentiable conditioner), MaskedAutoregressive with the affine transformer (every well-shaped masked network with differentiable activation — differentiability of the whole network is proved —, "
      "loc/scale any differentiable functions of the parameter row, in particular ps[0]+a / softplus(ps[1]+b)), Planar with tanh (the generated forward map is proved to be a bijection of R^n for every w != 0: strictly increasing "
      "and onto along u-hat, identity across; the density the code evaluates, p(f(x))|det J_f(x)|, integrates to one; the unimplemented inverse is the mathematical one) and with leaky relu (0 < slope <= 1; two affine pieces, kink on a hyperplane), "
      "also with parameters computed from the condition, BlockAutoregressiveNetwork with the default LeakyTanh (any max_val > 0) or any activation with act' > 0 onto R (bijectivity of the forward map on R^n, the code's own log-space log-det), "
      "Flip and Permute (every permutation the constructor accepts); hence any depth and any mixture of these layers over a normalised base integrates to one at every condition (also as ONE Transformed over the Chain, merge_transforms) and its "
      "sampler has law exp(log_prob); concrete instances (a conditional tanh MAF, planar, BNAF and a mixed MAF-Flip-BNAF flow over StandardNormal((2,))) are proved normalised; "
      "the generated StandardNormal log-density is normalised (scalar and (n,)); Tanh is not onto R and its pull-back only collects the base mass in (-1,1). "
      "THE LIBRARY'S DEFAULT (relu) CONDITIONERS: for Coupling and MaskedAutoregressive layers no differentiability in the conditioning coordinates is needed — Tonelli, one coordinate at a time "
      "(Proofs/MassShear.lean, MassAR.lean, NetMassMeas.lean; theorem autoregressive_layer): every coupling layer over ANY conditioner function and every masked autoregressive layer over ANY well-shaped masked network, with ANY "
      "scalar transformer family that is lawful on R, log-det antisymmetric and satisfies the one-dimensional layer fact, preserves mass for every integrand and has sampler law exp(log_prob), in both orientations, at every condition, "
      "given only joint measurability of (point, coordinate) -> transformer(parameter row of the point)(coordinate); that hypothesis is discharged for the generated Affine transformer in the constructor's parameterisation over every "
      "perceptron / masked network with a CONTINUOUS activation, relu included (coupling_relu_layer, maf_continuous_layer: a network with a continuous activation is continuous, any depth and shapes); every well-formed rational-quadratic "
      "spline satisfies the three scalar hypotheses (spline_family_facts), and the joint measurability is PROVED for the spline family the premade flows use (Flows.rqsFamily over the generated "
      "_real_to_increasing_on_interval and RationalQuadraticSpline methods: spline_joint_measurable, coupling_spline_meas, maf_spline_meas), so the default SPLINE coupling / MAF layers over relu networks satisfy both layer facts in both "
      "orientations with only shape hypotheses left (coupling_spline_layer, maf_spline_layer, spline_flow_instance); any depth and mixture with the other layers is normalised with sampler law exp(log_prob) (flowNd_layerOK_stack_normalised/_sample_law; relu_flow_instance).",
      _TB + " PARTIAL: PRNG statistics (that the base sampler draws from the base density) and rounding are outside; BNAF's sampling direction uses the numerical inverter and Planar(tanh) implements no inverse, so for those 'samples follow "
      "the density' is proved for the exact inverse (C10 bounds the inverter's error); triangular_spline_flow has no dedicated d-dimensional theorem (its layers are covered one by one); excluded parameter point w = 0 of Planar (the code returns NaN there). The correspondence is C03's plus the network "
      "models' (netinv, bnafld), Planar's and the permutation layers', all re-run by C04's check.", "DESIGN.md §5 C04")

claim("C06", "Lean 4 theorems about a hand-written executable model of the batching layer, proved equal to the public wrappers REGENERATED from the source on every run "
      "(tools/py2lean/py2meth.py -> Gen/DistPublicGen.lean) + differential correspondence of both with the real methods",
      "In the model of _vectorize/_check_shapes/_get_sample_keys/_get_ufunc_signature and of jnp.vectorize's signature parsing, broadcasting and element "
      "pairing, for all event/condition shapes, sample_shapes and leading batch shapes of any rank and size: the signature text parses back to exactly the "
      "declared core shapes; condition.shape[:-cond_ndim or None] ++ cond_shape = condition.shape (incl. cond_ndim = 0); output shapes are sample_shape + "
      "condition batch + event (log-probs without event; log_prob: NumPy broadcast of the two batch shapes); every output element is the unbatched call on the "
      "slices NumPy broadcasting pairs at that index (x[i] with condition[i]); one key per output element, all distinct when split is injective; the result is a "
      "function of (key, shapes, in-bounds data); a call is accepted iff trailing dims match the declared shapes and the batch shapes broadcast. The model's "
      "signature strings, parser, output shapes/exception classes, element pairing, key shapes, key/draw distinctness and determinism are compared with the real "
      "code on every run (every event/condition shape of rank 0-2 in the thorough tier). ON THE REGENERATED CODE: log_prob / sample / sample_and_log_prob, ndim / cond_ndim, "
      "_vectorize (in_shapes / out_shapes tables, excluded set, the raise condition of _check_shapes' wrapper), _get_sample_keys and _get_ufunc_signature are translated statement by "
      "statement from distributions.py / utils.py over a small hand-written world (jnp.vectorize and jr.split stay primitives) and proved equal to the hand model's functions for every "
      "distribution object, shape, array and private method, accepted or rejected (gen_ufunc_signature_eq, gen_check_shapes_eq, gen_vectorize_eq, gen_sample_keys_eq, "
      "gen_log_prob_wrapper_eq, gen_sample_wrapper_eq, gen_sample_and_log_prob_wrapper_eq); the output-shape, element-pairing, distinct-key and zero-size statements are restated on the "
      "generated definitions, which are also run against the real methods.",
      "Trusted: Lean 4.33 kernel, axioms propext/Classical.choice/Quot.sound (audited per run); the translator py2meth.py with its typing sheet targets_dist_public.py and "
      "Model/DistPublicWorld.lean (hand-written meaning of jnp.vectorize = the hand model's pipeline with signature string / excluded set / checking wrapper as arguments, jr.split, "
      "arraylike_to_array, key reshape, isnan/where, str/replace/join), validated by the correspondence; the jnp.vectorize part of Model/Vectorize.lean is hand-written and tied by correspondence only; "
      "parameter defaults are not modelled; "
      "jr.split is abstract (assumed injective in the index; distinctness is measured). Keys are legacy uint32[2] keys. Zero-sized sample shapes/condition batches are "
      "covered (accepted since /repo 2d206ec; the previous max(1, prod) key_size rule is kept as a model variant that rejects them).", "DESIGN.md §5 C06")

claim("C17", "Lean 4 theorems about a hand-written executable model of train/losses.py proved equal to losses.py REGENERATED from the source on every run "
      "(tools/py2lean/py2meth.py -> Gen/LossesGen.lean) and, for the gradient clause, about the reverse-mode calculus of C18 "
      "extended by stop_gradient (expression trees assembled from kernels regenerated from the source) + Float correspondence with the real losses and with jax.grad of the real ElboLoss",
      "For every distribution record, batch size, sample count, n_contrastive < batch and every realisation of the random choice: the model of "
      "MaximumLikelihoodLoss is -(sum of log p(x_i|c_i))/batch; the model of ElboLoss is the mean of log q(x) - target(x) over the samples of the per-sample keys "
      "and has the same value with and without stick-the-landing whenever sample_and_log_prob is consistent with sample + log_prob (C03); every row of "
      "_get_contrastive_idxs has exactly n_contrastive pairwise distinct indices, none its own, all in range; the model of ContrastiveLoss equals the mean softmax "
      "cross-entropy -log(e^pos/(e^pos + sum e^neg)), is never negative (logsumexp(.. ++ [pos]) >= pos), and raises exactly when batch <= n_contrastive (or the "
      "condition batch differs). ON THE REGENERATED CODE: MaximumLikelihoodLoss.__call__, ElboLoss.__init__/__call__ (both stick_the_landing branches), "
      "ContrastiveLoss.__init__/__call__ (guard, single_x_loss closure, filter_vmap, mean) and _get_contrastive_idxs are translated statement by statement over a hand-written world "
      "(abstract eqx.combine / unwrap / distribution methods / jr.split; jr.choice(replace=False) = a prefix of an abstract permutation of the candidates - the one guarantee taken from JAX) "
      "and proved equal to the hand model for every world, scalar type and input (gen_mle_eq, gen_elbo_eq, gen_contrastive_idxs_eq, gen_contrastive_eq); the value theorems are restated on "
      "the generated definitions (gen_mle_def, gen_elbo_def, gen_elbo_stl_same_value, gen_contrastive_idxs_valid, gen_contrastive_def, gen_contrastive_nonneg), which are also run against the real losses. GRADIENT CLAUSE (reverse-mode calculus Ad.Expr with JAX's cotangent rules + Expr.stopGrad = lax.stop_gradient: forward identity, reverse a symbolic zero): "
      "for EVERY expression-level reparameterised sample x(theta, eps) (any number of components, later ones may use earlier ones), EVERY expression log q_phi(x) and EVERY parameter-free "
      "target, every environment, cotangent and number domain: log q evaluated with stop_gradient(params) has the same value, and its reverse pass is the plain one with exactly the "
      "adjoints of the trainable leaves deleted (substitution lemma, an equality of adjoint lists); hence with stick-the-landing the adjoint of every trainable leaf IS the path derivative "
      "(the adjoints of log q_phi(x) - target(x) on the sample components alone, phi held fixed, pulled back through x(theta, eps); for one component: xbar * dx/dtheta); without it the adjoint "
      "is path derivative + score term (adjoint of log q_phi(x) w.r.t. its own parameters at fixed x) on every key, for any number domain whose addition is a commutative monoid (EF = reals with exact "
      "arithmetic + infinities/NaN), so STL = plain - score wherever the score is finite; the same for the mean over any number of samples; numeric instance N(mu, sigma) with a non-zero "
      "score term: STL gradient (4, 8) vs plain (5, 19/2). The real losses are run against the model on Normal, wrapped Transformed, coupling and masked-autoregressive flows "
      "(conditional and unconditional) with the actual indices of _get_contrastive_idxs on every run; the reverse-mode model (Float) is compared with eqx.filter_value_and_grad of the real "
      "ElboLoss(stick_the_landing=True/False) - value and every trainable leaf's adjoint, same base noise - on Normal, Transformed(Normal, Exp/Tanh/SoftPlus) and Affine/Tanh/Exp/SoftPlus chains "
      "in 1-3 dimensions, and the decomposition plain = STL + score is checked on the real code alone.",
      _TB + " Model/Losses.lean is a hand model tied by correspondence AND by proof to the regenerated losses; trusted for that tie: the translator py2meth.py, its sheet targets_losses.py and "
      "Model/LossWorld.lean (the meaning of the library calls: public batched log_prob/sample/sample_and_log_prob as C06 proves them, stop_gradient = identity on values, vmap/filter_vmap, logsumexp, mean, x[idxs]); "
      "parameter defaults are not modelled. The gradient theorems are about the expression calculus (scalar straight-line code with let, select, max/min, "
      "vector lookup, stop_gradient): that JAX's autodiff implements these cotangent rules is trusted and measured (rtol 1e-8) on elementwise flows; Model/ElboAd.lean's wiring of "
      "Transformed/Chain/BijectionReparam/norm.logpdf/mean around the generated kernels is hand-written and tied by that correspondence; network conditioners (coupling, MAF) are outside the "
      "expression language (for them the gradient clause is checked only through the real-code oracle on elementwise flows and the closed-form Normal check). The plain branch is modelled as "
      "log q_theta(x(theta, eps)) via log_prob; the real code's sample_and_log_prob form is run beside it (model and real code agree to rtol 1e-8) but the equality of the two gradients is not a theorem. "
      "jr.choice(replace=False) is modelled as a prefix of an arbitrary permutation; PRNG is JAX's.", "DESIGN.md §5 C17")

claim("C14", "Lean 4: kernel-evaluated staging discipline over a control-flow table regenerated from the source + a noninterference theorem for checked skeletons; real tracer compared by the harness",
      "PARTIAL. Every method in scope (212 rows: all bijection/distribution/wrapper/loss/inverter methods) is abstracted to its control-flow skeleton, regenerated from /repo on every run; "
      "Lean decides on the whole table that no Python-level branch, loop bound, assert or bool/int/float conversion depends on a traced value, that no global/nonlocal or mutation of self "
      "occurs outside constructors and that no static-marked field holds an array; and proves noninterference for every checked skeleton: control path, static data and outcome are the same "
      "for all argument stores with equal static data (the path recorded on tracers is the path of every concrete call; the method is a deterministic function of its arguments). "
      "Lean also decides on the regenerated table that no constructor stores a lambda capturing an array- or module-valued argument (all array state is pytree leaves). "
      "jit==eager, vmap==loop, repeatability, flatten/unflatten and leaf serialisation round trips (also into a freshly constructed model with a different key) are compared on real "
      "objects for every zoo object and method on every run.",
      _TB + " NOT a proof about JAX's tracer, XLA, vmap batching rules or Equinox's serialiser: assumptions A1/A2 of the theorem state the interface; tracegen.py's expression abstraction is trusted and validated by the harness.", "DESIGN.md §5 C14")

claim("C02", "Lean 4 theorems (Mathlib HasDerivAt/HasFDerivAt of the generated forward map as oracle) about definitions regenerated from the source (py2lean) "
      "+ Float correspondence of the log-det outputs + autodiff-Jacobian oracle on the real objects",
      "Theorems (all parameter values satisfying the constructor's constraint, all real inputs): for the generated Affine/Loc/Scale (either sign), Exp, SoftPlus, "
      "Tanh and LeakyTanh (both pieces AND the switch points |x| = max_val) kernels, the log-det returned with the forward map equals log|d| where d != 0 is Mathlib's "
      "derivative of the generated forward map, and the log-det returned with the inverse equals minus the forward one at the preimage; the generated Chain "
      "(any length; chain rule), the generated Invert (inverse function theorem, proved) and elementwise liftings of any length (Frechet derivative = diagonal matrix, "
      "returned value = log|det J| = sum of the children's) preserve both facts, hence every expression tree over these classes. 'Scalar whatever the shape' is a typing "
      "fact of the model (one real per call) and is checked on the real arrays (shape ()) by the correspondence. "
      "Further classes with theorems: RationalQuadraticSpline (every point, knots included), Planar (matrix determinant lemma; the returned value is log|det J|), TriangularAffine "
      "(det = product of the diagonal), Coupling and MaskedAutoregressive (lower-triangular Frechet derivative from the dependency structure), BlockAutoregressiveNetwork (the value "
      "computed by the modelled transform_and_log_det - block log-Jacobians chained through the generated logmatmulexp - equals log|det J| for every size, weight, condition and "
      "point; no hypothesis left for the default LeakyTanh). Permute/Flip/Concatenate/Stack/Partial/Reshape/Scan/Vmap log-dets are sums/re-presentations of their children's "
      "(C08's theorems). The float64 autodiff-Jacobian oracle (slogdet(jacfwd(transform)), ranks 0-3) runs on every class when a tie breaks.",
      _TB + " Model/ToBij.lean elementwise lifting is hand-written and tied by the correspondence on real arrays of ranks 1-3. The autodiff oracle trusts jax.jacfwd and "
      "numpy slogdet in float64 and skips points sitting on a kink of the forward map (leaky-relu hyperplane, spline interval ends).", "DESIGN.md §5 C02")

for _p in []:
    NOT_YET[_p] = "not yet built in this round: theorems and correspondence under construction (see DESIGN.md §8); never claimed on the strength of the harness alone"

# ---- session 3: method bodies / constructors that were hand models are now REGENERATED and proved equal to those models (DESIGN.md §5, notes/g14–g19.md)
_S3 = {
    "C01": "SESSION 3: the four methods (+ _flat_params_to_transformer, inv_scan_fn with its lax.scan, the __init__ guards) of Coupling and MaskedAutoregressive (Gen/NetGen.lean), "
           "transform / inverse of BlockAutoregressiveNetwork and block_autoregressive_linear (Gen/BnafGen.lean), TriangularAffine's constructor and methods (Gen/TriangularGen.lean), "
           "Permute (Gen/PermGen.lean) and Scan / Vmap (Gen/JaxTransforms.lean) are regenerated from the source on every run and PROVED equal to the hand models for every input, size "
           "and parameter value (gen_coupling_eq_model, gen_maf_eq_model, gen_bnaf_transform_eq_model, gen_triangular_eq_model, gen_permute_eq_model, gen_scan_eq_chain, gen_vmap_eq_model), "
           "and the lawfulness theorems are restated on the generated definitions (gen_coupling_lawful, gen_maf_lawful, gen_maf_inverse_correct, gen_bnaf_injective, gen_triangular_init_lawful, "
           "gen_permute_lawful, gen_scan_lawful, gen_vmap_lawful). Still hand-written: the worlds giving the library calls their meaning (Model/NetWorld, BnafWorld, JaxTrWorld, TriPrims, PermPrims), "
           "eqx.nn.MLP.__call__, get_ravelled_pytree_constructor, argsort, solve_triangular.",
    "C02": "SESSION 3: the log-det theorems are restated on the regenerated Coupling / MaskedAutoregressive / BlockAutoregressiveNetwork / TriangularAffine / Scan / Vmap methods "
           "(gen_coupling_logdet, gen_maf_logdet, gen_coupling_ld_antisym, gen_maf_ld_antisym, gen_bnaf_logdet, gen_bnaf_logdet_constructed, gen_bnaf_inverse_logdet, gen_triangular_ld, "
           "gen_triangular_det, gen_triangular_ld_antisym, gen_scan_ld, gen_scan_ld_antisym, gen_vmap_ld): the value the GENERATED transform_and_log_det returns is log|det J| of the generated forward map.",
    "C03": "SESSION 3: Transformed(base, generated Scan) returns with every sample the log-prob log_prob gives it (gen_scan_transformed_consistent); Flows.scanOf, the Scan of the generated factories, is the generated Scan.",
    "C05": "SESSION 3: the constructors (__init__ of Affine, Loc, Scale, _StandardStudentT, the nine families, MultivariateNormal, VmapMixture) and every accessor property are regenerated on every run "
           "(py2meth.py, sheet targets_families.py -> Gen/FamiliesGen.lean) and proved equal to the hand wiring of Model/Families.lean for every broadcastable pair / triple of parameter shapes "
           "(gen_<family>_eq_model), with the textbook log-density theorems and accessor round trips restated on the generated constructor + generated _log_prob (gen_<family>_log_prob, gen_<family>_accessor, "
           "gen_mixture_log_prob); a swapped argument order, Scale(rate), an un-subtracted minval or an accessor returning the raw leaf breaks a named proof or is refused.",
    "C07": "SESSION 3: the documented-function theorems for TriangularAffine (incl. its constructor) and Permute are restated on the regenerated definitions (gen_triangular_doc, gen_triangular_ctor_doc, "
           "gen_triangular_init_doc, gen_triangular_inverse_doc, gen_permute_eq_model, gen_permute_doc, gen_permute_inverse, gen_permute_ctor_accepts_iff).",
    "C09": "SESSION 3: the dependency theorems are restated on the regenerated Coupling / MaskedAutoregressive / BlockAutoregressiveNetwork methods (gen_coupling_structure, gen_maf_autoregressive, "
           "gen_bnaf_dependency, gen_bnaf_jacobian) and unwrap of the generated block_autoregressive_linear wrapper nest is proved to be the model's masked, weight-normalised matrix (gen_block_linear_eq_model).",
    "C11": "SESSION 3: on the regenerated constructors: every entry of the unwrapped scale / df / triangular diagonal is positive for every accepted argument and every raw leaf stored afterwards "
           "(gen_affine_scale_pos, gen_scale_scale_pos, gen_df_pos, gen_tri_diag_pos), generated Affine.__init__ = the hand constructor entry by entry (gen_affine_ctor_eq), TriangularAffine.__init__ accepts "
           "exactly rank-2 square matrices with loc of size n or 1 (gen_tri_ctor_accepts_iff), Permute rejects exactly non-permutations (gen_reject_iff_not_permutation).",
    "C13": "SESSION 3: the WHOLE _unwrap_check_and_cast closure (condition=None default, both inner checks, evaluation order) and the __init_subclass__ loop are regenerated in exception-valued form "
           "(py2wrap.py -> Gen/WrapperGen.lean) and proved equal to the hand model for every method, shape, cond_shape, x and condition (gen_wrapper_eq_model, gen_check_accepts_iff, gen_wrapper_error_class, "
           "gen_init_subclass_spec, gen_init_subclass_table); the scalar-transformer guards of Coupling / MaskedAutoregressive.__init__ and TriangularAffine.__init__ are regenerated too (C01 gen_coupling_init_spec, "
           "gen_maf_init_spec; C11 gen_tri_ctor_accepts_iff). The search oracle has a NumPy-referenced constructor grid over equal and different ranks.",
}
_S3["C12"] = ("SESSION 3: the TRAVERSAL itself — unwrap, AbstractUnwrappable.recursive_unwrap (the nested vectorized_unwrap / v_unwrap, the reversed(_dummy.shape) filter_vmap loop, "
              "tree_flatten_one_level / tree_unflatten(unwrap(flat))), non_trainable and the eqx.partition(..., is_leaf=NonTrainable) statements of fit_to_data / fit_to_variational_target / "
              "get_ravelled_pytree_constructor — is regenerated on every run (py2meth.py, sheet targets_unwrap.py -> Gen/UnwrapGen.lean over Model/UnwrapWorld.lean) and proved equal to the tree model for every tree, "
              "every per-class body and any number of batch levels (gen_traversal_eq_model), with the main theorems restated on the generated definitions (gen_traversal_idempotent, gen_traversal_each_once, "
              "gen_traversal_vmapped, gen_partition_frozen_not_in_params, gen_frozen_bit_identical).")
_S3["C10"] = ("SESSION 3: _adapt_interval_to_include_root, _bisection_search, _autoregressive_bisection_search and AutoregressiveBisectionInverter.__call__ / __check_init__ are regenerated as WHOLE functions "
              "(py2meth.py, sheet targets_bisectgen.py -> Gen/BisectionGen.lean; lax.while_loop = fuelled iteration, lax.scan = fold: Model/BisectWorld.lean) and proved equal to the hand model for every scalar type "
              "(gen_adapt_eq_model, gen_bisection_search_eq_model, gen_autoregressive_eq_model, gen_inverter_call_eq_model, gen_inverter_check_iff); the result theorems are restated on the generated functions "
              "(gen_bisect_result, gen_search_result, gen_autoregressive_error_bound) and the generated functions run beside the model at Rat / Float, bit for bit.")
_S3["C04"] = ("SESSION 3 (triangular_spline_flow): composition of layers that supply both layer facts (chain_layer_facts), elementwise layers (elementwise_layer: LeakyTanh of any max_val > 0, vmapped splines at every raw "
              "parameter row), TriangularAffine (constant Jacobian, also on the regenerated methods; weight normalisation keeps the triangle and the non-zero diagonal), the linear condition and the default permutation "
              "give both layer facts for every layer of triangular_spline_flow in both orientations at every condition; the flow is normalised and its sampler has law exp(log_prob) for any number of layers and both "
              "values of invert (flowNd_tri_spline_normalised, flowNd_tri_spline_sample_law) — so all five premade architectures now have d-dimensional theorems with their default conditioners.")
_S3["C18"] = ("SESSION 3: spline-transformer Coupling (both directions) and MaskedAutoregressive (forward) and MultivariateNormal are no longer oracle-only: _real_to_increasing_on_interval, the derivative lambda and "
              "TriangularAffine's _to_triangular / ..._and_log_det are generated as expression arrays (Gen/SplineAst.lean, Gen/TriAst.lean) and coupling_spline_grad_finite, maf_spline_grad_finite, spline_params_grad_finite, "
              "mvn_grad_finite prove finite values and finite adjoints with respect to input, condition and every weight / bias / leaf for every parameter value and input, with no finiteness-of-value hypothesis. "
              "Still oracle-only: the MAF inverse scan, BNAF, whole factories.")
_S3["C03"] += (" AbstractTransformed.merge_transforms and the shape / cond_shape properties are regenerated (py2meth.py, sheet targets_merge.py -> Gen/MergeGen.lean) and proved, for every nesting depth, to be the hand model and to "
               "preserve _log_prob, _sample and _sample_and_log_prob (gen_merge_transforms_model, gen_merge_transforms_sem); cond_shape is merge_cond_shapes of the two sides, in particular () and None give () "
               "(gen_transformed_cond_shape_scalar_instance); triangular_spline_flow's make_layer is regenerated and its change-of-variables theorem restated on it (gen_tri_spline_flow_change_of_variables).")
_S3["C08"] = ("SESSION 3: Chain.__getitem__ / __iter__ / __len__ / merge_chains and AbstractTransformed.merge_transforms are regenerated (Gen/MergeGen.lean) and proved: merge_chains is the full flattening with the four methods unchanged "
              "(gen_merge_chains_sem), chain[i] is the child for positive and negative i and raises IndexError / TypeError as Python does (gen_chain_getitem_int), chain[a:b] is the generated Chain of the Python-sliced list "
              "(gen_chain_getitem_sem), merge_transforms preserves all three distribution methods (gen_merge_transforms_sem).")
_S3["C01"] += (" triangular_spline_flow.make_layer / get_splines (py2flows.py), BlockAutoregressiveNetwork.__init__ and _UnconditionalPlanar.__init__ are regenerated as well (gen_tri_spline_make_layer_eq, gen_tri_spline_flow_lawful, "
               "gen_bnaf_init_eq_model, gen_bnaf_init_ok); the audit of the theorem statements is AUDIT.md (DESIGN.md §14).")
for _k, _v in _S3.items():
    _t = CLAIMED[_k]
    CLAIMED[_k] = (_t[0], _t[1] + " " + _v, _t[2], _t[3])
