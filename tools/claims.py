# Registry of claims; exec'd by mkmanifest.py.  NOT_YET entries are properties whose theorems are not built yet.
_TB = ("Trusted: Lean 4.33 kernel, Mathlib v4.33, axioms propext/Classical.choice/Quot.sound (audited per run, no sorry/native_decide); "
       "the py2lean translator with its typing sheets and the Prelude/Jnp.lean primitive specs (validated by the correspondence on every run); "
       "theorems are over ℝ — IEEE rounding is measured by the correspondence, not proved.")

claim("C01", "Lean 4 theorems about definitions regenerated from the source (py2lean) + Float correspondence",
      "For every parameter value satisfying the constructor's constraint and every real input, the generated Affine/Loc/Scale/Exp/SoftPlus/Tanh/LeakyTanh "
      "kernels are mutually inverse on their (co)domains and the generated Chain/Invert preserve that for any tree depth; the generated definitions are "
      "re-derived from /repo on every run and run against the real methods on boundary-directed inputs.",
      _TB + " Coupling/MAF/BNAF/Planar/Scan/Vmap round trips are tied through C08/C09/C10's models.", "DESIGN.md §5 C01")

claim("C07", "Lean 4 theorems about definitions regenerated from the source (py2lean) + Float correspondence",
      "The generated transform/inverse of Affine/Loc/Scale/Exp/SoftPlus/Tanh/LeakyTanh/AdditiveCondition/Flip equal the documented mathematical "
      "functions for all parameters and inputs (LeakyTanh: tanh inside, the tangent line with slope 1-tanh^2(max_val) outside, switch points included); the "
      "constructor's softplus reparameterisation reproduces its argument; Permute (hand model, flat row-major) is inverted by argsort for every permutation of "
      "every size and its constructor check accepts exactly the permutations.",
      _TB + " Model/Ctors.lean and Model/Perm.lean are hand models tied by correspondence. Planar/TriangularAffine/spline documented-function theorems pending; they are exercised by the NumPy-reference oracle only.", "DESIGN.md §5 C07")

claim("C03", "Lean 4 theorems about definitions regenerated from the source (py2lean) + Float correspondence",
      "The generated AbstractTransformed methods satisfy the change-of-variables identities for every base/bijection record: log_prob = base log-density at the "
      "inverse image + inverse log-det; sample = bijection of the base sample; the log-prob returned with a sample equals log_prob there whenever the bijection is "
      "lawful with antisymmetric log-dets (any nesting depth); merge_transforms and merge_chains preserve all methods for any nesting depth. Nested real "
      "Transformed objects, their merged forms and the premade flows' orientation are compared with the model on every run.",
      _TB + " Base distributions are abstract records; PRNG is JAX's. BNAF/triangular-spline factories cannot be constructed in this environment.", "DESIGN.md §5 C03")

for _p in ["C02","C04","C05","C06","C08","C09","C10","C11","C12","C13","C14","C15","C16","C17","C18"]:
    NOT_YET[_p] = "not yet built in this round: theorems and correspondence under construction (see DESIGN.md §8); never claimed on the strength of the harness alone"
