# Registry of claims; exec'd by mkmanifest.py.  NOT_YET entries are properties whose theorems are not built yet.
_TB = ("Trusted: Lean 4.33 kernel, Mathlib v4.33, axioms propext/Classical.choice/Quot.sound (audited per run, no sorry/native_decide); "
       "the py2lean translator with its typing sheets and the Prelude/Jnp.lean primitive specs (validated by the correspondence on every run); "
       "theorems are over ℝ — IEEE rounding is measured by the correspondence, not proved.")

claim("C01", "Lean 4 theorems about definitions regenerated from the source (py2lean) + Float correspondence",
      "For every parameter value satisfying the constructor's constraint and every real input, the generated Affine/Loc/Scale/Exp/SoftPlus/Tanh/LeakyTanh "
      "kernels are mutually inverse on their (co)domains and the generated Chain/Invert preserve that for any tree depth; the generated definitions are "
      "re-derived from /repo on every run and run against the real methods on boundary-directed inputs.",
      _TB + " Coupling/MAF/BNAF/Planar/Scan/Vmap round trips are tied through C08/C09/C10's models.", "DESIGN.md §5 C01")

claim("C07", "Lean 4 theorems about definitions regenerated from the source (py2lean) + Float correspondence",
      "The generated transform/inverse of Affine/Loc/Scale/Exp/SoftPlus/Tanh/LeakyTanh/AdditiveCondition/Flip equal the documented mathematical "
      "functions for all parameters and inputs (LeakyTanh: tanh inside, the tangent line with slope 1-tanh^2(max_val) outside, switch points included); the "
      "constructor's softplus reparameterisation reproduces its argument; Permute (hand model, flat row-major) is inverted by argsort for every permutation of "
      "every size and its constructor check accepts exactly the permutations.",
      _TB + " Model/Ctors.lean and Model/Perm.lean are hand models tied by correspondence. Planar/TriangularAffine/spline documented-function theorems pending; they are exercised by the NumPy-reference oracle only.", "DESIGN.md §5 C07")

claim("C03", "Lean 4 theorems about definitions regenerated from the source (py2lean) + Float correspondence",
      "The generated AbstractTransformed methods satisfy the change-of-variables identities for every base/bijection record: log_prob = base log-density at the "
      "inverse image + inverse log-det; sample = bijection of the base sample; the log-prob returned with a sample equals log_prob there whenever the bijection is "
      "lawful with antisymmetric log-dets (any nesting depth); merge_transforms and merge_chains preserve all methods for any nesting depth. Nested real "
      "Transformed objects, their merged forms and the premade flows' orientation are compared with the model on every run.",
      _TB + " Base distributions are abstract records; PRNG is JAX's. BNAF/triangular-spline factories cannot be constructed in this environment.", "DESIGN.md §5 C03")

claim("C12", "Lean 4 theorems (core Lean, no Mathlib) about a hand model of pytrees with wrapper nodes + differential correspondence on real pytrees and real training runs",
      "For every pytree (any size, nesting depth, container width, any per-class unwrap bodies returning wrapper-free values): unwrap leaves no wrapper, is idempotent, applies "
      "every wrapper node exactly once with inner wrappers before outer ones, and commutes with slicing a tree built under any number of vmap levels (batched unwrap = stack of "
      "per-slice unwraps); a method of the form g∘unwrap gives the same result on t and unwrap t; partition(is_inexact_array, is_leaf=NonTrainable) puts every leaf under a "
      "NonTrainable and every non-inexact leaf in the static half, combine∘partition = id, and for EVERY sequence of update trees (any optimiser, loss, number of steps of either loop) "
      "the trained tree has the same static half (frozen and non-float leaves bit-identical); get_ravelled_pytree_constructor counts only trainable entries, fixes the frozen ones "
      "for every v, and constructor(0)=t. The model is run against the real unwrap / eqx.partition / apply_updates / constructor on random real wrapper trees (order of application "
      "observed through instrumented subclasses), vmapped constructions and real flows; real fit_to_data / fit_to_variational_target runs (adam, sgd+momentum, adamw with weight decay) "
      "are compared bitwise on frozen leaves; all bijection/distribution methods are compared on t vs unwrap(t).",
      "Trusted: Lean 4.33 kernel, axioms propext/Classical.choice/Quot.sound (audited per run, no sorry/native_decide); the hand model Model/Tree.lean of jax flattening order, "
      "eqx.partition/combine/apply_updates, ravel_pytree and filter_vmap, and the encoder of real pytrees (both validated by the correspondence on every run). "
      "Partial: exactly-zero gradients rest on stop_gradient's semantics (measured: jax.grad is exactly 0; absence of frozen leaves from the differentiated params half is proved); "
      "Where/WeightNormalization built under vmap are covered only when their arguments broadcast batch-polymorphically (hypothesis in WB; the real Where with mixed-rank arguments under vmap "
      "unwraps to a wrong value or raises); the per-class unwrap bodies are abstract.", "DESIGN.md §5 C12")

claim("C08", "Lean 4 theorems about generated Chain/Invert and a hand n-d array model of the other combinators + differential correspondence on random expression trees",
      "For arrays of any rank and size: jnp.array_split/jnp.concatenate/jnp.stack along any axis are modelled on the (outer, axis, inner) view of row-major data and proved mutually "
      "inverse; Concatenate/Stack apply child j to exactly slice j and write exactly slice j, are lawful when the children are, and return the sum of the children's log-dets; Partial "
      "changes only the indexed positions (gather/scatter laws); Reshape/EmbedCondition only re-present the inputs; the generated Chain is composition, the generated Invert swaps "
      "directions; slicing, merge_chains and merge_transforms never change the function; Scan/Vmap enter through their defining equivalences. The model is run against the real "
      "combinators on random trees: ranks 0-3, every valid axis incl. negative, every index kind of Partial, conditional and unconditional children mixed, Scan, Vmap.",
      _TB + " Model/Arr.lean is a hand model tied by correspondence; lax.scan / filter_vmap themselves are JAX's; declared-shape algebra for negative axes is proved in C13's ArgCheck model.", "DESIGN.md §5 C08")

for _p in ["C02","C04","C05","C06","C09","C10","C11","C13","C14","C15","C16","C17","C18"]:
    NOT_YET[_p] = "not yet built in this round: theorems and correspondence under construction (see DESIGN.md §8); never claimed on the strength of the harness alone"
