"""Builders for real flowjax objects with *non-default* parameters, boundary-directed inputs,
and encoders of their unwrapped parameters into model-driver op lines.

Everything here touches the implementation only through public constructors,
`eqx.tree_at` on documented fields and `flowjax.wrappers.unwrap`.
"""
from __future__ import annotations

import math

import equinox as eqx
import jax
import jax.numpy as jnp
import numpy as np

import flowjax.bijections as B
from flowjax.wrappers import unwrap

import vlib
from vlib import f2b, fs2b

METHODS = ("t", "tl", "i", "il")
PYMETH = {"t": "transform", "tl": "transform_and_log_det", "i": "inverse", "il": "inverse_and_log_det"}


def call(bij, m, x, cond=None):
    """Call a public method; returns a flat list of floats ([y...] or [y..., ld])."""
    r = getattr(bij, PYMETH[m])(jnp.asarray(x, dtype=float), cond)
    if isinstance(r, tuple):
        return [float(v) for v in np.ravel(np.asarray(r[0]))] + [float(np.asarray(r[1]))]
    return [float(v) for v in np.ravel(np.asarray(r))]


def nextafter_set(v):
    """v and its float neighbours (denormals are dropped: XLA flushes them to zero)"""
    out = [v, float(np.nextafter(v, -np.inf)), float(np.nextafter(v, np.inf))]
    return [u for u in out if u == 0.0 or abs(u) > 1e-300]


# ------------------------------------------------------------------ leaf builders
def affine(loc, scale):
    a = B.Affine(jnp.asarray(loc, float), jnp.ones_like(jnp.asarray(scale, float)))
    return eqx.tree_at(lambda t: t.scale, a, jnp.broadcast_to(jnp.asarray(scale, float), a.shape))  # either sign


def scale_b(scale):
    s = B.Scale(jnp.ones_like(jnp.asarray(scale, float)))
    return eqx.tree_at(lambda t: t.scale, s, jnp.asarray(scale, float))


def rqs(rng, knots, interval, min_derivative=1e-3, perturb=2.0, softmax_adjust=1e-2):
    """Spline with raw parameters perturbed away from the identity initialisation."""
    s = B.RationalQuadraticSpline(knots=knots, interval=interval, min_derivative=min_derivative, softmax_adjust=softmax_adjust)
    if perturb:
        def rnd(n):
            return jnp.asarray([rng.uniform(-perturb, perturb) for _ in range(n)])
        s = eqx.tree_at(lambda t: (t.x_pos.args[0], t.y_pos.args[0], t.derivatives.args[0]), s,
                        (rnd(knots), rnd(knots), s.derivatives.args[0] + rnd(knots + 2)))
    return s


def rqs_params(s):
    u = unwrap(s)
    lo, hi = float(u.interval[0]), float(u.interval[1])
    return lo, hi, [float(v) for v in u.x_pos], [float(v) for v in u.y_pos], [float(v) for v in u.derivatives]


def rqs_line(s, m, x):
    lo, hi, xs, ys, ds = rqs_params(s)
    return f"leaf RQS {m} {f2b(lo)} {f2b(hi)} {fs2b(xs)} {fs2b(ys)} {fs2b(ds)} {f2b(x)}"


def rqs_boundary_inputs(s, rng, n_random=6):
    lo, hi, xs, ys, ds = rqs_params(s)
    pts = []
    for v in list(xs) + list(ys) + [lo, hi, 0.0]:
        pts += nextafter_set(v)
    pts += [lo - 1.0, hi + 1.0, lo - 1e4, hi + 1e4, 0.5 * (lo + hi)]
    pts += [rng.uniform(lo - 0.5, hi + 0.5) for _ in range(n_random)]
    return pts


def leaky_boundary_inputs(m, rng, n_random=6):
    t = math.tanh(m)
    pts = []
    for v in [m, -m, t, -t, 1.0, -1.0, 0.0]:
        pts += nextafter_set(v)
    pts += [1e4, -1e4, 2 * m, -2 * m, 0.5 * m, -0.3 * m]
    pts += [rng.uniform(-2 * m - 1, 2 * m + 1) for _ in range(n_random)]
    return pts


def generic_inputs(rng, n_random=6):
    pts = [0.0, 1.0, -1.0, 1e-8, -1e-8, 30.0, -30.0, 0.5, -0.5]
    pts += [rng.uniform(-5, 5) for _ in range(n_random)]
    return pts


# ------------------------------------------------------------------ Scan = Chain of the unstacked layers (C08's defining equivalence)
def unstack_scan(scan):
    """the list of layers a `Scan` iterates over: every array leaf sliced along axis 0"""
    params, static = eqx.partition(scan.bijection, eqx.is_array)
    n = jax.tree_util.tree_leaves(params)[0].shape[0]
    return [eqx.combine(jax.tree_util.tree_map(lambda l: l[i], params), static) for i in range(n)]


def scan_vs_chain_mismatches(scan, x, cond=None, tol=1e-9):
    """Compare the real `Scan` with the real `Chain` of its unstacked layers (Chain is tied to the model by
    regeneration: Gen/Combinators.lean) on all four methods; returns a list of (method, got, want)."""
    chain = B.Chain(unstack_scan(scan))
    out = []
    for m in METHODS:
        a = call(scan, m, x, cond)
        b = call(chain, m, x, cond)
        if len(a) != len(b) or not vlib.allclose(a, b, rtol=tol, atol=tol):
            out.append((m, a, b))
    return out
