"""Run registered checks against a seeded change: apply the patch to /repo, run the checks, undo it.

  tools/seeded.py run <dir> [--props C01,C07] [--tier quick]     dir contains patch.diff (+ demo.py, meta.json)
  tools/seeded.py demo <dir>                                      confirm the demonstration: fails with, passes without

Nothing is ever committed to /repo; the working tree is restored (`git checkout -- .`) and Gen/ is regenerated afterwards.
"""
import argparse, json, os, subprocess, sys, time

ROOT = os.path.dirname(os.path.dirname(os.path.abspath(__file__)))
REPO = "/repo"
# --copy: work on a scratch copy of /repo (VERIF_REPO) so that other users of /repo are not disturbed; the checks
# read the repository location from VERIF_REPO, everything else is identical to applying the patch to /repo itself


def sh(cmd, **kw):
    return subprocess.run(cmd, capture_output=True, text=True, **kw)


def clean():
    st = sh(["git", "-C", REPO, "status", "--porcelain"]).stdout.strip()
    return st == ""


def apply(d):
    p = os.path.join(d, "patch.diff")
    r = sh(["git", "-C", REPO, "apply", "--check", p])
    if r.returncode != 0:
        raise SystemExit("patch does not apply: " + r.stderr[:500])
    sh(["git", "-C", REPO, "apply", p])


def undo():
    sh(["git", "-C", REPO, "checkout", "--", "."])
    sh(["/venv/bin/python", os.path.join(ROOT, "tools", "py2lean", "gen.py"), "/repo"])
    if REPO != "/repo":
        sh(["rm", "-rf", REPO])


def run_demo(d):
    env = dict(os.environ, PYTHONPATH=REPO, JAX_PLATFORMS="cpu")
    r = sh(["/venv/bin/python", "-W", "ignore", os.path.join(d, "demo.py")], env=env, cwd=d, timeout=1800)
    return r.returncode, (r.stdout + r.stderr)[-1500:]


def main():
    ap = argparse.ArgumentParser()
    ap.add_argument("mode", choices=["run", "demo"])
    ap.add_argument("dir")
    ap.add_argument("--props")
    ap.add_argument("--tier", default="quick")
    ap.add_argument("--copy", action="store_true")
    a = ap.parse_args()
    global REPO
    if a.copy:
        REPO = os.environ.get("VERIF_SEEDREPO", "/tmp/seedrepo")
        sh(["rm", "-rf", REPO])
        sh(["git", "clone", "-q", "/repo", REPO])
        os.environ["VERIF_REPO"] = REPO
    d = os.path.abspath(a.dir)
    if not clean():
        raise SystemExit("/repo working tree is not clean")
    meta = json.load(open(os.path.join(d, "meta.json"))) if os.path.exists(os.path.join(d, "meta.json")) else {}
    if a.mode == "demo":
        rc0, out0 = run_demo(d)
        apply(d)
        try:
            rc1, out1 = run_demo(d)
        finally:
            undo()
        res = {"demo_without_change_rc": rc0, "demo_with_change_rc": rc1, "with_tail": out1[-400:], "confirmed": rc0 == 0 and rc1 != 0}
        print(json.dumps(res, indent=1))
        meta["confirmed_by_verifier"] = res
        json.dump(meta, open(os.path.join(d, "meta.json"), "w"), indent=1)
        return
    props = (a.props or meta.get("property", "")).split(",")
    apply(d)
    results = {}
    try:
        for p in props:
            t0 = time.time()
            r = sh([os.path.join(ROOT, "check"), p, "--tier", a.tier], cwd=ROOT, timeout=7200)
            lines = [l for l in r.stdout.split("\n") if l.startswith(("VIOLATION", "KNOWN-FINDING", "[", "  broken"))]
            results[p] = {"exit": r.returncode, "wall_s": round(time.time() - t0, 1), "lines": [l[:400] for l in lines][:14]}
            print(p, "exit", r.returncode, "\n  " + "\n  ".join(l[:300] for l in lines[:10]))
            rp = os.path.join(ROOT, "replays", f"{p}-{a.tier}-0.json")
            if r.returncode == 1 and os.path.exists(rp):
                rj = json.load(open(rp))
                results[p]["replay_kind"] = rj.get("kind")
                results[p]["witnesses"] = [{k: (str(v)[:200]) for k, v in w.items()} for w in rj.get("witnesses", [])[:2]]
                results[p]["broken"] = [b["kind"] + ":" + str(b["obligation"])[:120] for b in rj.get("broken_obligations", [])[:6]]
    finally:
        undo()
    meta.setdefault("check_results", {}).update(results)
    json.dump(meta, open(os.path.join(d, "meta.json"), "w"), indent=1)


if __name__ == "__main__":
    main()
