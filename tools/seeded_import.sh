#!/bin/bash
# usage: tools/seeded_import.sh <outdir> <Cxx> : copy m*/ from a sub-agent's output directory into seeded/Cxx-mN/
cd "$(dirname "$0")/.."
for m in "$1"/m*; do n=$(basename "$m"); d=seeded/$2-$n; mkdir -p "$d"; cp "$m"/patch.diff "$m"/demo.py "$m"/meta.json "$d"/; echo "$d"; done
