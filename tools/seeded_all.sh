#!/bin/bash
# usage: tools/seeded_all.sh <dir>...   runs demo confirmation and the target property's quick check for each seeded change (scratch copy of /repo)
cd "$(dirname "$0")/.."
for d in "$@"; do
  echo "=== $d $(date +%H:%M:%S)"
  /venv/bin/python tools/seeded.py demo "$d" --copy 2>&1 | tail -8
  /venv/bin/python tools/seeded.py run "$d" --copy 2>&1 | tail -14
done
echo "=== done $(date +%H:%M:%S)"
